"""Property-level driver for engine K: run a grid, match known findings, replay, report, write evidence."""
import os
import re
import sys
import time

from . import common
from .common import log
from .kani import KaniCheck, run as run_cmd

LEVEL = "model_checking"
REPLAY_CAP = {"quick": 6, "thorough": 24}


def slug(s):
    return re.sub(r"[^A-Za-z0-9_.-]+", "_", s).strip("_")[:80]


def run_property(prop, mod, tier, only=None):
    t0 = time.time()
    shapes = mod.shapes(tier)
    if only:
        shapes = [s for s in shapes if only in s.name]
    seed = common.seed()
    if seed:
        # the seed only permutes scheduling order; verdicts do not depend on it
        import random
        random.Random(seed).shuffle(shapes)
    kc = KaniCheck(prop, shapes, tier,
                   support_src=getattr(mod, "SUPPORT", ""),
                   crate_attrs=getattr(mod, "CRATE_ATTRS", ()),
                   kani_flags=getattr(mod, "KANI_FLAGS", ()),
                   harness_timeout=getattr(mod, "HARNESS_TIMEOUT", {}).get(tier),
                   jobs=getattr(mod, "JOBS", {}).get(tier))
    n_shapes_generated = len(shapes)
    kc.generate()
    log("[%s] %s tier: %d shapes, %d harnesses; building in %s" % (
        prop, tier, len(shapes), sum(len(s.harnesses) for s in shapes), kc.dir))
    ok = kc.build()
    log("[%s] build %.1fs (%d round(s)), %d shape(s) rejected by rustc" % (
        prop, kc.build_s, kc.build_rounds, len(kc.compile_failures)))
    if ok:
        kc.verify()
        log("[%s] verify %.1fs" % (prop, kc.verify_s))
    kf = common.KnownFindings()
    violations, known_lines, inconclusive = [], [], list(kc.inconclusive)
    replay_dir = os.path.join(common.REPLAY_DIR, prop)
    os.makedirs(replay_dir, exist_ok=True)

    # compile failures: decided by rustc on the expansion
    for cf in kc.compile_failures:
        key = "%s/build" % cf.shape.name
        path = os.path.join(replay_dir, cf.shape.name + ".build.rs")
        with open(path, "w") as f:
            f.write("// %s: the expansion of this supported shape does not compile (decided by rustc during the harness build).\n" % prop)
            for d in cf.diagnostics[:6]:
                f.write("".join("// " + l + "\n" for l in d.splitlines()[:14]))
            f.write(cf.shape.source)
        cf.path = path
        text = kf.match(prop, key)
        if text is not None:
            cf.known = text
            known_lines.append("KNOWN-FINDING: property=%s key=%s %s" % (prop, key, text))
        else:
            first = cf.diagnostics[0].splitlines()[0] if cf.diagnostics else ""
            violations.append((key, path, "expansion does not compile: " + first))

    # programs that must not compile: decided by rustc as well
    for s in kc.accepted_unexpectedly:
        key = "%s/accepted" % s.name
        path = os.path.join(replay_dir, s.name + ".accepted.rs")
        with open(path, "w") as f:
            f.write("// %s: this program must be rejected with a diagnostic, but the derive accepted it (decided by rustc during the harness build).\n" % prop)
            f.write("// replay with: ./check %s --replay %s\n" % (prop, path))
            f.write(s.source)
        text = kf.match(prop, key)
        if text is not None:
            known_lines.append("KNOWN-FINDING: property=%s key=%s %s" % (prop, key, text))
        else:
            violations.append((key, path, "accepted although it must be rejected: " + s.descr))

    # solver verdicts
    replayed = 0
    to_replay = []
    keyof = lambda r, c: "%s/%s/%s" % (r.shape.name, r.harness.name, slug(c[0]))
    for r in kc.results:
        if r.status == "FAILED":
            if all(kf.match(prop, keyof(r, c)) is not None for c in r.failed_checks):
                r.known = True
                for c in r.failed_checks:
                    known_lines.append("KNOWN-FINDING: property=%s key=%s %s" % (prop, keyof(r, c), kf.match(prop, keyof(r, c))))
            else:
                to_replay.append(r)
        elif r.status != "SUCCESSFUL":
            inconclusive.append("%s: %s %s" % (r.id, r.status, "; ".join(r.inconclusive_reasons[:3])))
    cap = REPLAY_CAP[tier]
    if len(to_replay) > cap:
        log("[%s] %d unlisted failing harnesses; replaying the first %d natively, the rest are listed in the evidence only"
            % (prop, len(to_replay), cap))
    unreplayed = [r.id for r in to_replay[cap:]]
    to_replay = to_replay[:cap]
    if to_replay:
        kc.replay_batch(to_replay)
    for r in to_replay:
        rep = r.replay
        replayed += 1
        path = os.path.join(replay_dir, "%s__%s.rs" % (r.shape.name, r.harness.name))
        with open(path, "w") as f:
            f.write("// %s counterexample found by Kani/CBMC in harness %s\n" % (prop, r.id))
            for desc, f_, line, cat in r.failed_checks:
                f.write("//   failed: %s (%s:%s)\n" % (desc, f_, line))
            f.write("//   native replay: %s\n" % (rep.get("detail"),))
            f.write("// replay with: ./check %s --replay %s\n" % (prop, path))
            src = r.shape.source.rstrip()
            if rep.get("test_src"):
                src = src[:-1] + "\n" + rep["test_src"] + "\n}\n"
            f.write(src + "\n")
        rep["path"] = path
        if rep["confirmed"]:
            unl = [c for c in r.failed_checks if kf.match(prop, keyof(r, c)) is None]
            violations.append((keyof(r, unl[0]), path, "; ".join(c[0] for c in unl)))
        else:
            inconclusive.append("counterexample of %s did not reproduce natively: %s" % (r.id, rep.get("detail")))

    extra_cov = {}
    if hasattr(mod, "extra_pass") and not only:
        x = mod.extra_pass(tier, kf)
        violations += x["violations"]
        known_lines += x["known"]
        inconclusive += x["inconclusive"]
        extra_cov = x["coverage"]
    wall = time.time() - t0
    # ---------------------------------------------------------------- evidence
    desc = getattr(mod, "DESCRIPTION", {})
    okr = [r for r in kc.results if r.status == "SUCCESSFUL"]
    samples = []
    for r in (kc.results[:3] + [x for x in kc.results if x.status == "FAILED"][:3]):
        samples.append({
            "harness": r.id, "program": r.shape.descr, "symbolic_inputs": r.harness.symbolic,
            "asserts": r.harness.asserts, "unwind": r.harness.unwind, "verdict": r.status,
            "vccs": r.vccs, "solver_s": r.solver_s, "reachability_witnesses": "%d/%d" % (r.covers_satisfied, r.harness.covers),
            "failed_checks": [c[0] for c in r.failed_checks],
        })
    if kc.results:
        samples.append({"harness_source": kc.results[0].shape.source})
    exercised = sorted({e for s in shapes for e in s.exercises})
    coverage = {
        "states": sum(r.vccs for r in kc.results),
        "transitions": sum(r.checks_total for r in kc.results),
        "traces_validated_against_impl": replayed,
        "samples": samples,
        "explanation": "states = CBMC verification conditions generated over all harnesses; transitions = properties "
                       "(assertions, overflow/memory-safety checks, reachability witnesses) decided by the solver; "
                       "traces_validated = counterexamples replayed natively (dev + release) before being reported",
        "engine": "Kani/CBMC (CaDiCaL) over the expansions produced by the working-tree proc-macro",
        "tool_versions": kc.kani_version,
        "programs_in_grid": n_shapes_generated,
        "programs_compiled": len(kc.shapes),
        "programs_rejected_by_rustc": [cf.shape.name for cf in kc.compile_failures],
        "must_not_compile_programs": len(kc.rejected_as_expected) + len(kc.accepted_unexpectedly),
        "must_not_compile_rejected": [{"program": s.descr, "diagnostic": (re.sub(r"\s+", " ", d[0])[:160] if d else "")} for s, d in kc.rejected_as_expected],
        "must_not_compile_accepted": [s.descr for s in kc.accepted_unexpectedly],
        "harnesses": len(kc.results),
        "harnesses_successful": len(okr),
        "harnesses_failed": len([r for r in kc.results if r.status == "FAILED"]),
        "harnesses_inconclusive": len([r for r in kc.results if r.status not in ("SUCCESSFUL", "FAILED")]),
        "reachability_witnesses_satisfied": sum(r.covers_satisfied for r in kc.results),
        "reachability_witnesses_expected": sum(r.harness.covers for r in kc.results),
        "must_panic_witnesses_unreachable": sum(r.covers_unreachable for r in kc.results),
        "solver_time_s": round(sum(r.solver_s for r in kc.results), 3),
        "symex_time_s": round(sum(r.symex_s for r in kc.results), 3),
        "build_s": round(kc.build_s, 1), "verify_wall_s": round(kc.verify_s, 1),
        "functions_exercised": exercised,
        "bounds": desc,
        "known_findings_reported": known_lines,
        "inconclusive": inconclusive[:20],
        "failed_but_not_replayed_over_cap": unreplayed,
        "exhaustive": False,
        "per_harness": [{"id": r.id, "verdict": r.status, "vccs": r.vccs, "checks": r.checks_total,
                         "solver_s": round(r.solver_s, 4), "wall_ms": r.wall_ms,
                         "witnesses": "%d/%d" % (r.covers_satisfied, r.harness.covers)} for r in kc.results],
    }
    coverage.update(extra_cov)
    assumptions = list(getattr(mod, "ASSUMPTIONS", [])) + [
        "Kani 0.68 / CBMC 6.11 model Rust semantics faithfully for the generated code (default checks on: memory "
        "safety, arithmetic overflow, unwinding assertions)",
        "the programs dimension is the stated finite grid; values are symbolic over the stated domains",
        "the harness crate is compiled with Kani's pinned nightly, not the repository's MSRV toolchain",
    ]
    common.write_evidence(prop, tier, LEVEL, coverage, assumptions, wall, len(violations))

    for l in known_lines:
        print(l)
    for key, path, what in violations:
        print("VIOLATION property=%s replay=%s" % (prop, path))
        log("  %s: %s" % (key, what))
    if not kc.results and not kc.compile_failures and not inconclusive and not kc.rejected_as_expected and not kc.accepted_unexpectedly:
        inconclusive.append("no harness was run")
    if violations:
        return common.EXIT_VIOLATION
    if inconclusive:
        for i in inconclusive[:10]:
            log("[%s] INCONCLUSIVE: %s" % (prop, i))
        return common.EXIT_INCONCLUSIVE
    log("[%s] held: %d harnesses over %d programs, %d VCCs, solver %.2fs, wall %.0fs" % (
        prop, len(okr), len(kc.shapes), coverage["states"], coverage["solver_time_s"], wall))
    return common.EXIT_OK


def replay_file(prop, path):
    """./check <P> --replay <file>: rebuild the single shape with its playback test and run it natively."""
    if path.endswith(".json"):
        import importlib
        m = importlib.import_module("vf.props." + prop.lower())
        return m.replay_json(path)
    src = open(path).read()
    d = common.scratch_dir(prop + "-replay")
    from .kani import CARGO_TOML
    os.makedirs(os.path.join(d, "src"))
    open(os.path.join(d, "Cargo.toml"), "w").write(CARGO_TOML % dict(name="replay", repo=common.REPO))
    import shutil
    shutil.copy(os.path.join(common.REPO, "Cargo.lock"), os.path.join(d, "Cargo.lock"))
    os.makedirs(os.path.join(d, ".cargo"))
    open(os.path.join(d, ".cargo", "config.toml"), "w").write("[net]\noffline = true\n")
    mod = sys.modules.get("vf.props." + prop.lower())
    lib = "#![allow(dead_code, unused, non_camel_case_types, non_snake_case)]\n"
    try:
        import importlib
        m = importlib.import_module("vf.props." + prop.lower())
        for a in getattr(m, "CRATE_ATTRS", ()):
            lib = a + "\n" + lib
        if getattr(m, "SUPPORT", ""):
            lib += "pub mod support;\n"
            open(os.path.join(d, "src", "support.rs"), "w").write(m.SUPPORT)
    except ImportError:
        pass
    lib += "pub mod shape;\n"
    open(os.path.join(d, "src", "lib.rs"), "w").write(lib)
    open(os.path.join(d, "src", "shape.rs"), "w").write(src)
    if path.endswith(".accepted.rs"):
        code, out = run_cmd(["cargo", "kani", "--only-codegen", "--target-dir", "tgt"], cwd=d, timeout=1800, mem_limit=False)
        print(out[-2000:])
        if code == 0:
            print("the program compiles")
            print("VIOLATION property=%s replay=%s" % (prop, path))
            return common.EXIT_VIOLATION
        return common.EXIT_OK
    if path.endswith(".build.rs"):
        code, out = run_cmd(["cargo", "kani", "--only-codegen", "--target-dir", "tgt"], cwd=d, timeout=1800, mem_limit=False)
        print(out[-3000:])
        if code != 0:
            print("VIOLATION property=%s replay=%s" % (prop, path))
            return common.EXIT_VIOLATION
        return common.EXIT_OK
    code, out = run_cmd(["cargo", "kani", "playback", "-Z", "concrete-playback", "--", "kani_concrete_playback"],
                        cwd=d, timeout=1800, mem_limit=False)
    print(out[-3000:])
    if re.search(r"^test \S+ \.\.\. FAILED", out, re.M):
        print("VIOLATION property=%s replay=%s" % (prop, path))
        return common.EXIT_VIOLATION
    return common.EXIT_OK
