"""C03 - format literals are interpreted exactly as std::fmt interprets them (engine L)."""
import json
import os
import re
import time

from .. import common
from ..common import log
from . import fmtparser

PROP = "C03"
# char::is_whitespace (the multi-byte ones matter since U+00A0 / U+3000 are in the alphabet)
WS = " \t\n\r\x0b\x0c\u0085\u00a0\u1680\u2000\u2001\u2002\u2003\u2004\u2005\u2006\u2007\u2008\u2009\u200a\u2028\u2029\u202f\u205f\u3000"


def classify(code, s):
    """A stable class name for a disagreement, used as the known-finding key: <code>/<class>."""
    if code == 1:
        # std accepts, derive_more's parser returns None
        inner = re.findall(r"\{([^{}]*)\}", s.replace("{{", "").replace("}}", ""))
        # `{:.}`: a dot that is not followed by a precision (std: precision implied)
        if any(re.search(r"\.(x\?|X\?|[?oxXpbeE])?[%s]*$" % re.escape(WS), p) and not re.search(r"\.\*|\.\d|\.[^\W\d]\w*\$", p) for p in inner):
            return "dot-without-precision"
        if any(p and (p[-1] in WS or re.match(r"^[^:]*[%s]+(:|$)" % re.escape(WS), p)) for p in inner):
            return "whitespace-inside-placeholder"
        return "other"
    if code == 6:
        if ".*" in s:
            return "star-precision-does-not-advance-implicit-counter"
        return "other"
    if code == 8:
        if re.search(r"\{\d{5,}", s):
            return "index-above-u16-max"
        return "other"
    return "other"


def main(a):
    if a.replay:
        return replay(a.replay)
    tier = a.tier
    t0 = time.time()
    res = fmtparser.explore(tier, PROP)
    kf = common.KnownFindings()
    recs = res["records"]
    fails = [r for r in recs if r["kind"] == "ret" and r["code"] not in (0, 9)]
    observations = [r for r in recs if r["kind"] == "ret" and r["code"] == 9]
    classes = {}
    for r in fails:
        s = fmtparser.lit(r)
        key = "%d/%s" % (r["code"], classify(r["code"], s))
        classes.setdefault(key, []).append(r)
    violations, known_lines, inconclusive = [], [], list(res["inconclusive"])
    replay_dir = os.path.join(common.REPLAY_DIR, PROP)
    os.makedirs(replay_dir, exist_ok=True)
    for key, rs in sorted(classes.items()):
        confirmed = [r for r in rs if r.get("native", {}) and r["native"].get("code") == r["code"]]
        text = kf.match(PROP, key)
        shortest = min(rs, key=lambda r: (len(r["input"]), r["input"]))
        if text is not None:
            known_lines.append("KNOWN-FINDING: property=%s key=%s %s (%d paths, e.g. %r)" % (PROP, key, text, len(rs), fmtparser.lit(shortest)))
            continue
        if not confirmed:
            inconclusive.append("disagreement class %s did not reproduce natively (%d paths)" % (key, len(rs)))
            continue
        shortest = min(confirmed, key=lambda r: (len(r["input"]), r["input"]))
        path = os.path.join(replay_dir, "code%s.json" % key.replace("/", "_"))
        json.dump({"property": PROP, "class": key, "meaning": fmtparser.FAIL_TEXT.get(shortest["code"]), "literal": fmtparser.lit(shortest),
                   "bytes": shortest["input"], "llsym_code": shortest["code"], "native": shortest["native"],
                   "paths_in_class": len(rs), "other_literals": [fmtparser.lit(r) for r in confirmed[:12]],
                   "replay": "./check C03 --replay %s" % path}, open(path, "w"), indent=1)
        violations.append((key, path, "%s; e.g. %r (%d paths)" % (fmtparser.FAIL_TEXT.get(shortest["code"]), fmtparser.lit(shortest), len(rs))))
    pin = fmtparser.oracle_pin(tier)
    if pin.get("status") == "DISAGREE":
        inconclusive.append("the oracle restatement disagrees with rustc_parse_format: " + pin.get("summary", ""))
    wall = time.time() - t0
    cov = fmtparser.coverage_common(res, tier) if res.get("build") else {"states": 0, "transitions": 0, "traces_validated_against_impl": 0}
    cov.update({
        "samples": [{"literal": fmtparser.lit(r), "verdict": "agree" if r["code"] == 0 else "observation: std rejects, derive_more's parser accepts, format_args! still sees the literal",
                     "digest": r.get("digest", [])[:16]} for r in ([x for x in recs if x["kind"] == "ret" and x["code"] == 0][-3:] + observations[:2])] +
                   [{"literal": fmtparser.lit(r), "verdict": "DISAGREE code %d: %s" % (r["code"], fmtparser.FAIL_TEXT.get(r["code"]))} for r in fails[:4]],
        "paths_agreeing": len([r for r in recs if r["kind"] == "ret" and r["code"] == 0]),
        "paths_observation_std_rejects_dm_accepts_but_not_delegated": len(observations),
        "disagreement_classes": {k: {"paths": len(v), "shortest": fmtparser.lit(min(v, key=lambda r: (len(r["input"]), r["input"])))} for k, v in classes.items()},
        "known_findings_reported": known_lines,
        "inconclusive": inconclusive[:10],
        "oracle_pin": pin,
        "explanation": "states = symbolic paths explored (each ends in a verdict decided by the path condition's satisfiability); transitions = solver "
                       "queries; traces_validated = paths whose predicted return code and digest were reproduced by the native build",
        "exhaustive": False,
    })
    common.write_evidence(PROP, tier, "model_checking", cov, [
        "the oracle is a restatement of rustc_parse_format (ParseMode::Format) + format_args!'s unknown-trait check; it is pinned against "
        "the nightly's real rustc_parse_format by vf/llsym/rust/validator (run by ./setup and in thorough runs)",
        "llsym executes the IR faithfully: every explored path's return code and digest are re-computed natively and must agree",
        "input buffer base address is fixed (the parsers do no alignment-dependent work)",
        "Placeholder::parse_fmt_string is cut out of impl/src/fmt/mod.rs by item name and compiled verbatim",
    ], wall, len(violations))
    for l in known_lines:
        print(l)
    for key, path, what in violations:
        print("VIOLATION property=%s replay=%s" % (PROP, path))
        log("  %s: %s" % (key, what))
    if violations:
        return common.EXIT_VIOLATION
    if inconclusive:
        for i in inconclusive[:8]:
            log("[%s] INCONCLUSIVE: %s" % (PROP, i[:600]))
        return common.EXIT_INCONCLUSIVE
    log("[%s] held within the bound: %d paths, %d solver queries, wall %.0fs" % (PROP, cov["states"], cov["transitions"], wall))
    return common.EXIT_OK


def replay(path):
    from ..llsym import build, native
    j = json.load(open(path))
    scratch = common.scratch_dir(PROP + "-replay")
    b = build.build_fmt_wrapper(scratch)
    out = native.run_native(b["so"], [bytes(j["bytes"])])[0]
    print("literal %r -> native %s" % (j["literal"], out))
    if out.get("abort") or out.get("code") not in (0, 9):
        print("VIOLATION property=%s replay=%s" % (j.get("property", PROP), path))
        return common.EXIT_VIOLATION
    return common.EXIT_OK
