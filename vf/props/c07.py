"""C07 - enum-level format: wraps via `_variant`, otherwise is only a default.

Oracle: the documented rule restated by the generator as a `match` of plain `write!` calls, in which `_variant` is
`format_args!(<what the variant prints by itself>)`."""
from ..shapes import Shape, Harness
from . import fmtsupport

CRATE_ATTRS = fmtsupport.CRATE_ATTRS
SUPPORT = fmtsupport.SUPPORT

HEAD = ("#![allow(dead_code, unused, clippy::all, non_camel_case_types)]\nuse crate::support::*;\nuse crate::run_fmt;\n"
        "use core::fmt::{self, FormattingOptions, Write as _};\n\n")
P = "Probe::new(kani::any())"


def module(decl, harness_src):
    return HEAD + decl + "\n\n#[cfg(kani)]\nmod proofs {\n    use super::*;\n" + harness_src + "}\n"


class V:
    """a variant: name, kind (unit/tuple/named), field names, own attribute literal+args (or None)"""

    def __init__(self, name, kind, nfields=0, own=None, own_args="", printed_name=None):
        self.name, self.kind, self.n, self.own, self.own_args = name, kind, nfields, own, own_args
        self.printed_name = printed_name or name

    def fields(self):
        if self.kind == "named":
            return ["a", "b", "c"][:self.n]
        return ["_%d" % i for i in range(self.n)]

    def decl(self, attr):
        a = '    #[%s("%s"%s)]\n' % (attr, self.own, (", " + self.own_args) if self.own_args else "") if self.own is not None else ""
        if self.kind == "unit":
            return a + "    %s," % self.name
        if self.kind == "named":
            return a + "    %s { %s }," % (self.name, ", ".join("%s: Probe" % f for f in self.fields()))
        return a + "    %s(%s)," % (self.name, ", ".join("Probe" for _ in range(self.n)))

    def pat(self):
        if self.kind == "unit":
            return "E::" + self.name
        if self.kind == "named":
            return "E::%s { %s }" % (self.name, ", ".join(self.fields()))
        return "E::%s(%s)" % (self.name, ", ".join(self.fields()))

    def ctor(self):
        if self.kind == "unit":
            return "E::" + self.name
        if self.kind == "named":
            return "E::%s { %s }" % (self.name, ", ".join("%s: %s" % (f, P) for f in self.fields()))
        return "E::%s(%s)" % (self.name, ", ".join(P for _ in range(self.n)))

    def own_text(self, default_placeholder):
        """(literal, args) the variant prints by itself"""
        if self.own is not None:
            return self.own, self.own_args
        if self.n == 0:
            return self.printed_name, ""
        if self.n == 1:
            return default_placeholder, self.fields()[0]
        return None


def lit_fields(lit):
    import re
    return set(re.findall(r"\{([A-Za-z_][A-Za-z0-9_]*)", lit.replace("{{", "")))


def oracle_arm(v, shared, shared_args, default_placeholder, wraps):
    own = v.own_text(default_placeholder)
    fields_in_shared = [f for f in v.fields() if f in lit_fields(shared)]
    extra = "".join(", %s = *%s" % (f, f) for f in fields_in_shared)
    if wraps:
        olit, oargs = own
        own_fields = [f for f in v.fields() if f in lit_fields(olit)]
        oextra = "".join(", %s = *%s" % (f, f) for f in own_fields)
        va = "format_args!(\"%s\"%s%s)" % (olit, (", " + oargs) if oargs else "", oextra)
        sargs = shared_args.replace("_variant", "VARIANT")
        if "_variant" in lit_fields(shared) and "_variant" not in shared_args:
            return "            %s => { write!(want, \"%s\"%s%s, _variant = %s).unwrap(); }" % (
                v.pat(), shared, (", " + sargs.replace("VARIANT", va)) if sargs else "", extra, va)
        return "            %s => { write!(want, \"%s\", %s%s).unwrap(); }" % (v.pat(), shared, sargs.replace("VARIANT", va), extra)
    # not wrapping: a default for variants without their own attribute
    if v.own is not None:
        olit, oargs = v.own, v.own_args
        own_fields = [f for f in v.fields() if f in lit_fields(olit)]
        oextra = "".join(", %s = *%s" % (f, f) for f in own_fields)
        return "            %s => { write!(want, \"%s\"%s%s).unwrap(); }" % (v.pat(), olit, (", " + oargs) if oargs else "", oextra)
    return "            %s => { write!(want, \"%s\"%s%s).unwrap(); }" % (v.pat(), shared, (", " + shared_args) if shared_args else "", extra)


def enum_shape(name, trait, attr, default_placeholder, variants, shared, shared_args, wraps, rename_all=None, quick=True, unwind=10, generic=False):
    top = '#[%s("%s"%s)]\n' % (attr, shared, (", " + shared_args) if shared_args else "")
    if rename_all:
        top += '#[%s(rename_all = "%s")]\n' % (attr, rename_all)
    decl = "#[derive(derive_more::%s)]\n%spub enum E {\n%s\n}" % (trait, top, "\n".join(v.decl(attr) for v in variants))
    if generic:
        # the same enum over a type parameter (instantiated with Probe by inference): the impl must carry the bounds the rule needs
        # one type parameter PER VARIANT: with a single shared parameter another variant's own placeholder supplies the bound a variant lacks
        assert "Probe" in decl
        lines, params = decl.split("\n"), []
        for i, l in enumerate(lines):
            if "Probe" in l:
                params.append("T%d" % len(params))
                lines[i] = l.replace("Probe", params[-1])
        decl = "\n".join(lines).replace("pub enum E {", "pub enum E<%s> {" % ", ".join(params))
    ctors = ["%d => %s" % (i, v.ctor()) for i, v in enumerate(variants)]
    ctors[-1] = "_ => " + variants[-1].ctor()
    arms = [oracle_arm(v, shared, shared_args, default_placeholder, wraps) for v in variants]
    hsrc = """    #[kani::proof]
    #[kani::unwind(%(unw)d)]
    fn enum_level_format_rule() {
        let s = match kani::any::<u8>() %% %(n)d { %(ctors)s };
        trace_reset();
        let mut want = Sink::new();
        match &s {
%(arms)s
        }
        let tw = trace_take();
        let (got, tg) = run_fmt!(%(T)s, &s, FormattingOptions::new());
        assert!(!got.overflow && !want.overflow, "HARNESS: sink too small");
        assert!(got.same(&want), "output differs from the documented enum-level format rule");
        assert!(tg == tw, "fields were formatted differently than the documented rule prescribes");
%(covers)s    }
""" % dict(unw=unwind, n=len(variants), ctors=", ".join(ctors), arms="\n".join(arms), T=trait,
           covers="".join("        kani::cover!(matches!(s, %s), \"reach %s\");\n" % (
               ("E::%s" % v.name) if v.kind == "unit" else ("E::%s { .. }" % v.name if v.kind == "named" else "E::%s(..)" % v.name), v.name)
               for v in variants))
    return Shape("c07_%s_%s" % (attr, name), module(decl, hsrc),
                 [Harness("enum_level_format_rule", "the variant and probe ids symbolic", covers=len(variants), unwind=unwind,
                          asserts="per variant: bytes and probe trace equal those of the documented rule (%s)" % (
                              "shared format wraps `_variant`" if wraps else "shared format is only a default"))],
                 decl.replace("\n", " "),
                 exercises=["impl/src/fmt/display.rs::expand_enum", "impl/src/fmt/display.rs::Expansion::shared_attr_info",
                            "impl/src/fmt/display.rs::Expansion::generate_body", "impl/src/fmt/mod.rs::FmtAttribute::contains_arg"],
                 quick=quick, crate_attrs=CRATE_ATTRS)


def shapes(tier):
    out = []
    # two 3-variant enums instead of one 6-variant enum: the cost of a harness grows much faster than linearly in the variants
    mixed_a = [V("Unit", "unit"), V("Single", "tuple", 1), V("Multi", "tuple", 2, own="{_0}+{_1:x}")]
    mixed_b = [V("Named", "named", 1), V("NamedOwn", "named", 2, own="{a}/{}", own_args="b"), V("UnitOwn", "unit", own="unit!")]
    tuples = [V("One", "tuple", 1), V("Two", "tuple", 2, own="{_1:?}{_0}"), V("OneOwn", "tuple", 1, own="<{}>", own_args="_0")]
    wrap_lits = [("variant_only", "{_variant}", ""), ("brackets", "<{_variant}>", ""), ("twice", "{_variant}-{_variant}", ""),
                 ("positional_arg", "{}!", "_variant"), ("alias_arg", "{v}?", "v = _variant"), ("escaped", "{{{_variant}}}", "")]
    for k, (n, lit, args) in enumerate(wrap_lits):
        out.append(enum_shape("wrap_%s_a" % n, "Display", "display", "{}", mixed_a, lit, args, True, quick=k in (0, 1, 2, 3)))
        out.append(enum_shape("wrap_%s_b" % n, "Display", "display", "{}", mixed_b, lit, args, True, quick=k in (0, 2, 4)))
    out.append(enum_shape("wrap_with_field", "Display", "display", "{}", tuples, "{_variant}: {_0}", "", True))
    # variants whose own literal is text only - with brace escapes - under a wrapping format: `_variant` is what the variant prints, i.e. the
    # literal with its escapes processed (seed C07-plain-text-own-attr-passed-raw)
    escapes = [V("Braces", "unit", own="{{}}"), V("Set", "tuple", 1, own="set {{ .. }}"), V("Plain", "unit", own="plain"), V("Single", "tuple", 1)]
    out.append(enum_shape("wrap_own_escapes", "Display", "display", "{}", escapes, "<{_variant}>", "", True))
    out.append(enum_shape("wrap_own_escapes_bare", "LowerHex", "lower_hex", "{:x}", escapes, "{_variant}", "", True, quick=False))
    # generic enums: attribute-less single-field variants under a wrapping / a default-only enum-level format (seed C07-wrapping-attrless-variant-bound-dropped)
    out.append(enum_shape("wrap_brackets_generic_a", "Display", "display", "{}", mixed_a, "<{_variant}>", "", True, generic=True))
    out.append(enum_shape("wrap_brackets_generic_b", "Display", "display", "{}", mixed_b, "<{_variant}>", "", True, generic=True))
    out.append(enum_shape("default_text_generic_a", "Display", "display", "{}", mixed_a, "X", "", False, generic=True, quick=False))
    out.append(enum_shape("wrap_with_field_arg", "Display", "display", "{}", tuples, "{_variant} / {:?}", "_0", True, quick=False))
    out.append(enum_shape("wrap_rename_all", "Display", "display", "{}",
                          [V("FooBar", "unit", printed_name="foo_bar"), V("Single", "tuple", 1), V("BazQux", "unit", own="own")],
                          "[{_variant}]", "", True, rename_all="snake_case"))
    # a variant's own attribute with a Pointer placeholder on a field named in it: `_variant` still stands for what the variant prints by itself
    # (unwind 24: should the field's *address* get printed, the harness must still return a verdict)
    ptrv = [V("P", "tuple", 1, own="at {_0:p}"), V("N", "named", 2, own="{b:p}/{a}"), V("Single", "tuple", 1)]
    out.append(enum_shape("wrap_own_pointer", "Display", "display", "{}", ptrv, "<{_variant}>", "", True, unwind=24))
    out.append(enum_shape("default_own_pointer", "Display", "display", "{}", ptrv, "X", "", False, unwind=24, quick=False))
    # not mentioning `_variant`: a default only
    out.append(enum_shape("default_text_a", "Display", "display", "{}", mixed_a, "X", "", False))
    out.append(enum_shape("default_text_b", "Display", "display", "{}", mixed_b, "X", "", False))
    out.append(enum_shape("default_with_field", "Display", "display", "{}", tuples, "[{_0}]", "", False))
    out.append(enum_shape("default_with_field_arg", "Display", "display", "{}", tuples, "({:x})", "_0", False, quick=False))
    # other traits: the variant's own text uses the derived trait's placeholder
    hexv = [V("Single", "tuple", 1), V("Two", "tuple", 2, own="{_0:x}.{_1}"), V("Named", "named", 1)]
    out.append(enum_shape("wrap_brackets", "LowerHex", "lower_hex", "{:x}", hexv, "<{_variant}>", "", True))
    out.append(enum_shape("wrap_brackets_generic", "LowerHex", "lower_hex", "{:x}", hexv, "<{_variant}>", "", True, generic=True))
    out.append(enum_shape("default_text", "LowerHex", "lower_hex", "{:x}", hexv, "X{{", "", False, quick=False))
    out.append(enum_shape("wrap_twice", "Octal", "octal", "{:o}", hexv, "{_variant}|{_variant}", "", True, quick=False))
    out.append(enum_shape("wrap_variant_only", "UpperExp", "upper_exp", "{:E}", hexv, "{_variant}", "", True, quick=False))
    out.append(bare_variant_flags_shape())
    out += rejected_variant_placeholders()
    if tier == "quick":
        out = [s for s in out if s.quick]
    return out


def rejected_variant_placeholders():
    """'a placeholder referring to `_variant` that carries any format specifier or a non-Display trait is rejected': must-not-compile programs,
    decided by rustc while the harness crate is built (the decision half under engine L decides which attributes `contains_arg` /
    `placeholders_by_arg` see; this is the user-visible end of it)."""
    from ..shapes import reject_shape
    progs = [("debug", "{_variant:?}", ""), ("width", "{_variant:>5}", ""), ("hex", "{_variant:x}", ""), ("zero", "{_variant:0}", ""),
             ("precision_positional", "{0:.1}", ", _variant"), ("alias_debug", "{v:?}", ", v = _variant"), ("implicit_sign", "{:+}", ", _variant"),
             ("second_of_two", "{_variant}{_variant:#}", ""), ("width_param", "{_variant:w$}", ", w = 3"), ("pointer", "{_variant:p}", "")]
    out = [reject_shape("c07", n, '#[derive(derive_more::Display)] #[display("%s"%s)] pub enum E { A, B(u8) }' % (lit, args),
                        "`_variant` placeholder with a format specifier", ["impl/src/fmt/display.rs::Expansion (shared format check)",
                                                                           "impl/src/fmt/mod.rs::FmtAttribute::placeholders_by_arg"])
           for n, lit, args in progs]
    out.append(reject_shape("c07", "hex_derive_debug_variant", '#[derive(derive_more::LowerHex)] #[lower_hex("{_variant:?}")] pub enum E { A(u8), B(u8) }',
                            "`_variant` placeholder with a non-Display trait", ["impl/src/fmt/display.rs::Expansion (shared format check)"]))
    return out


def bare_variant_flags_shape():
    """A bare enum-level `{_variant}` on a derive other than Display still *wraps* (it renders the variant and interpolates the text under
    Display), so the caller's flags do not reach the fields: the output is the same under every caller format spec.  (For derive(Display) the same
    attribute counts as absent and the variant is delegated to - that side is C05's.)"""
    decl = ('#[derive(derive_more::LowerHex)]\n#[lower_hex("{_variant}")]\npub enum E {\n    A(Probe),\n    #[lower_hex("{_0:x}")]\n    B(Probe),\n}\n'
            '#[derive(derive_more::Binary)]\n#[binary("{}", _variant)]\npub enum F {\n    A(Probe),\n}')
    src = """    #[kani::proof]
    #[kani::unwind(10)]
    fn callers_flags_do_not_reach_the_fields() {
        let o = any_opts();
        let e = if kani::any() { E::A(%(P)s) } else { E::B(%(P)s) };
        let (s1, t1) = run_fmt!(LowerHex, &e, o);
        let (s2, t2) = run_fmt!(LowerHex, &e, FormattingOptions::new());
        assert!(!s1.overflow && !s2.overflow, "HARNESS: sink too small");
        assert!(s1.same(&s2) && t1 == t2, "lower_hex: under a bare enum-level _variant placeholder the variant is rendered by itself: the caller's flags must not reach the field");
        let f = F::A(%(P)s);
        let (s3, t3) = run_fmt!(Binary, &f, o);
        let (s4, t4) = run_fmt!(Binary, &f, FormattingOptions::new());
        assert!(s3.same(&s4) && t3 == t4, "binary: the same with _variant as an argument");
        kani::cover!(o.get_width().is_some() && matches!(e, E::A(..)), "reach A with a width");
        kani::cover!(matches!(e, E::B(..)), "reach B");
    }
""" % dict(P=P)
    return Shape("c07_bare_variant_on_non_display_derives", module(decl, src),
                 [Harness("callers_flags_do_not_reach_the_fields", "the caller's FormattingOptions fully symbolic, the variant and probe ids symbolic", covers=2, unwind=10,
                          asserts="derive(LowerHex / Binary) with a bare enum-level `{_variant}`: output and probe trace do not depend on the caller's format spec")],
                 decl.replace("\n", " "), exercises=["impl/src/fmt/display.rs::Expansion::shared_attr_info"], crate_attrs=CRATE_ATTRS)


DESCRIPTION = {
    "grid": "Display enums with unit / single-field / multi-field / named variants, with and without their own attribute, with rename_all; "
            "shared literals mentioning `_variant` (alone, in text, twice, as a positional argument, as an alias, next to escapes, next to a "
            "field reference by name and by argument) and not mentioning it (text only, a field reference); LowerHex / Octal / UpperExp "
            "enums for the derived trait's default placeholder",
    "symbolic": "the variant and all probe ids",
    "oracle": "the documented rule as a match of write! calls: `_variant` := format_args!(own attribute | single field under the derived "
              "trait | (renamed) variant name); without `_variant` the shared literal only where the variant has no attribute of its own",
    "not_covered": ["`_variant` with a format spec / non-Display trait is rejected; enum-level attribute on Debug is rejected "
                    "(must-not-compile facts are rustc's verdict)"],
}
ASSUMPTIONS = ["a Formatter is (options, sink): equal probe traces and equal sink bytes mean equal output"]


# ------------------------------------------------------------------------------------------------------------------
# decision half: engine L (llsym) on `FmtAttribute::placeholders_by_arg` / `contains_arg` - the functions that decide whether an enum-level
# format "mentions `_variant`" (then it wraps every variant) and whether a placeholder referring to it carries a format specifier or a
# non-Display trait (then the derive rejects the attribute).  See vf/props/tcall.py and DESIGN.md 10.10.

BY_ARG_FAIL = {5: "`contains_arg` says the attribute does not mention the argument although a placeholder resolves to it (or the reverse)",
               6: "a different number of placeholders is taken to refer to the argument than format_args! resolves to it",
               7: "a placeholder referring to the argument is reported with different modifiers / trait (decides the rejection of `{_variant:?}`)"}


def _classify(code, lit, cfg):
    from . import tcall
    return "dot-without-precision" if tcall.has_dot_without_precision(lit) else "other"


def extra_pass(tier, kf):
    from . import tcall
    return tcall.run("C07", "probe_by_arg", tcall.BY_ARG_FORMS, tier, kf, BY_ARG_FAIL, _classify,
                     "FmtAttribute::placeholders_by_arg, contains_arg, Placeholder::parse_fmt_string, FmtAttribute, FmtArgument",
                     ["impl/src/fmt/mod.rs::FmtAttribute::placeholders_by_arg", "impl/src/fmt/mod.rs::FmtAttribute::contains_arg",
                      "impl/src/fmt/mod.rs::Placeholder::parse_fmt_string"],
                     n_full={"quick": 3, "thorough": 4}, n_deep={"quick": 5, "thorough": 6})


def replay_json(path):
    """./check C07 --replay <decision_*.json>"""
    from . import tcall
    return tcall.replay_json("C07", path)
