"""C05 - the caller's formatting flags pass through exactly for bare-placeholder formats, and are inert otherwise.

The caller's format spec is a *symbolic* core::fmt::FormattingOptions (fill, alignment, sign, `#`, `0`, width,
precision, hex-debug): every harness is decided for all of them at once."""
from ..shapes import Shape, Harness
from . import fmtsupport
from .fmtsupport import TRAITS, TRAIT_BY_NAME

CRATE_ATTRS = fmtsupport.CRATE_ATTRS
SUPPORT = fmtsupport.SUPPORT

HEAD = "#![allow(dead_code, unused, clippy::all)]\nuse crate::support::*;\nuse crate::run_fmt;\nuse core::fmt::{self, FormattingOptions};\n\n"

LETTERS = {"": "Display", "b": "Binary", "o": "Octal", "x": "LowerHex", "X": "UpperHex", "e": "LowerExp", "E": "UpperExp",
           "p": "Pointer", "?": "Debug"}


def letter_byte(trait):
    return "b'%s'" % TRAIT_BY_NAME[trait][3]


def module(decl, harness_src):
    return HEAD + decl + "\n\n#[cfg(kani)]\nmod proofs {\n    use super::*;\n" + harness_src + "}\n"


def passthrough_harness(fn, derived, ctor, expect_id_expr, seen_trait, extra=""):
    return """    #[kani::proof]
    #[kani::unwind(10)]
    fn %(fn)s() {
        let o = any_opts();
        let s = %(ctor)s;
        let want_id: u8 = %(idx)s;
        let (sink, tr) = run_fmt!(%(derived)s, &s, o);
        assert!(tr.n == 1, "the argument must be formatted exactly once");
        assert!(tr.ev[0] == Some(Ev { id: want_id, tr: %(lb)s, opts: o }),
                "the argument did not see the caller's options under the placeholder's trait");
        assert!(sink.len == 2 && sink.buf[0] == %(lb)s && sink.buf[1] == b'a' + want_id && !sink.overflow,
                "output is not exactly what the argument prints");
        kani::cover!(o.get_width().is_some() && o.get_alternate(), "reach non-default options");
%(extra)s    }
""" % dict(fn=fn, ctor=ctor, idx=expect_id_expr, derived=derived, lb=letter_byte(seen_trait), extra=extra)


def inert_harness(fn, derived, ctor):
    return """    #[kani::proof]
    #[kani::unwind(10)]
    fn %(fn)s() {
        let o = any_opts();
        let s = %(ctor)s;
        let (s1, t1) = run_fmt!(%(derived)s, &s, o);
        let (s2, t2) = run_fmt!(%(derived)s, &s, FormattingOptions::new());
        assert!(s1.same(&s2), "the caller's flags changed the output of a non-bare format");
        assert!(t1.n == t2.n && t1.ev[0] == t2.ev[0] && t1.ev[1] == t2.ev[1] && t1.ev[2] == t2.ev[2],
                "the caller's flags reached an argument of a non-bare format");
        assert!(t1.n >= 1 && s1.len >= 2 && !s1.overflow);
        kani::cover!(o.get_width().is_some() && o.get_alternate(), "reach non-default options");
    }
""" % dict(fn=fn, derived=derived, ctor=ctor)


P = "Probe::new(kani::any())"


def shapes(tier):
    out = []
    for trait, attr, sfx, _ in TRAITS:
        q_trait = trait in ("Display", "LowerHex", "Debug", "Pointer")
        own_letter = sfx

        def add(name, decl, hsrc, hs, quick):
            out.append(Shape("c05_%s_%s" % (attr, name), module(decl, hsrc), hs, decl.replace("\n", " "),
                             exercises=["impl/src/fmt/mod.rs::FmtAttribute::transparent_call", "impl/src/fmt/mod.rs::transparent_call_on_fields",
                                        "impl/src/fmt/display.rs::Expansion::generate_body" if trait != "Debug" else "impl/src/fmt/debug.rs::Expansion::generate_body"],
                             quick=quick and q_trait, crate_attrs=CRATE_ATTRS))

        D = "#[derive(derive_more::%s)]\n" % trait
        PT = Harness("flags_pass_through", "the caller's FormattingOptions fully symbolic; probe ids symbolic", covers=1, unwind=10,
                     asserts="the argument is formatted exactly once, under the placeholder's trait, with exactly the caller's options; output = its bytes")
        IN = Harness("flags_are_inert", "the caller's FormattingOptions fully symbolic; probe ids symbolic", covers=1, unwind=10,
                     asserts="output and every argument's (trait, options) are the same as under default options")
        # ---- no attribute on single-field types (Display-likes only)
        if trait != "Debug":
            add("noattr_tuple", D + "pub struct S(pub Probe);", passthrough_harness("flags_pass_through", trait, "S(%s)" % P, "s.0.id", trait), [PT], True)
            add("noattr_named", D + "pub struct S { pub x: Probe }", passthrough_harness("flags_pass_through", trait, "S { x: %s }" % P, "s.x.id", trait), [PT], False)
            decl = D + "pub enum S { V(Probe), W { y: Probe } }"
            add("noattr_variants", decl,
                passthrough_harness("flags_pass_through", trait, "if kani::any() { S::V(%s) } else { S::W { y: %s } }" % (P, P),
                                    "match &s { S::V(p) => p.id, S::W { y } => y.id }", trait), [PT], True)
        # ---- bare placeholders that must delegate
        two = "pub struct S(pub Probe, pub Probe);"
        named2 = "pub struct S { pub x: Probe, pub y: Probe }"
        c2 = "S(%s, %s)" % (P, P)
        cn = "S { x: %s, y: %s }" % (P, P)
        bare = [
            ("bare_implicit", '#[%s("{}", _1)]\n' % attr + two, c2, "s.1.id", "Display", True),
            ("bare_index0", '#[%s("{0}", _0)]\n' % attr + two, c2, "s.0.id", "Display", False),
            ("bare_field_positional", '#[%s("{_1}")]\n' % attr + two, c2, "s.1.id", "Display", True),
            ("bare_field_named", '#[%s("{y}")]\n' % attr + named2, cn, "s.y.id", "Display", True),
            ("bare_alias", '#[%s("{n}", n = _1)]\n' % attr + two, c2, "s.1.id", "Display", True),
            ("bare_alias_named_field", '#[%s("{n}", n = x)]\n' % attr + named2, cn, "s.x.id", "Display", False),
            ("bare_expr", '#[%s("{}", _1.pick())]\n' % attr + two, c2, "s.1.id", "Display", True),
            ("bare_expr_self", '#[%s("{}", self.0.pick())]\n' % attr + two, c2, "s.0.id", "Display", False),
            ("bare_expr_temporary", '#[%s("{}", _0.twin())]\n' % attr + two, c2, "(s.0.id + 1) & 15", "Display", False),
            ("bare_trailing_comma", '#[%s("{}", _0,)]\n' % attr + two, c2, "s.0.id", "Display", False),
            # a positional placeholder may refer to an argument written in named form (format_args! numbers named arguments too)
            ("bare_implicit_to_named_arg", '#[%s("{}", n = _1)]\n' % attr + two, c2, "s.1.id", "Display", True),
            ("bare_index0_to_named_arg", '#[%s("{0}", n = _0)]\n' % attr + two, c2, "s.0.id", "Display", False),
            # a field whose raw-identifier name is a keyword, named in the literal without the `r#`
            ("bare_field_raw_keyword", '#[%s("{type}")]\n' % attr + "pub struct S { pub r#type: Probe, pub y: Probe }",
             "S { r#type: %s, y: %s }" % (P, P), "s.r#type.id", "Display", True),
            ("bare_field_raw_keyword_typed", '#[%s("{fn:x}")]\n' % attr + "pub struct S { pub x: Probe, pub r#fn: Probe }",
             "S { x: %s, r#fn: %s }" % (P, P), "s.r#fn.id", "LowerHex", False),
            ("bare_typed_to_named_arg", '#[%s("{:x}", v = self.1.pick())]\n' % attr + two, c2, "s.1.id", "LowerHex", False),
        ]
        for l, lt in LETTERS.items():
            if l == "":
                continue
            ln = {"b": "b", "o": "o", "x": "lx", "X": "ux", "e": "le", "E": "ue", "p": "p", "?": "dbg"}[l]
            # `{:p}` with the field as argument formats a *reference* to the field (std prints its address): the probe's own Pointer impl is
            # reached through `*_1`, as in the repository's own tests
            bare.append(("bare_type_%s_arg" % ln, '#[%s("{:%s}", %s_1)]\n' % (attr, l, "*" if l == "p" else "") + two, c2, "s.1.id", lt, l in ("x", "?", "p")))
            bare.append(("bare_type_%s_field" % ln, '#[%s("{_0:%s}")]\n' % (attr, l) + two, c2, "s.0.id", lt, l in ("X", "e")))
        for name, body, ctor, idx, seen, quick in bare:
            add(name, D + body, passthrough_harness("flags_pass_through", trait, ctor, idx, seen), [PT], quick)
        # variant-level attributes
        decl = D + 'pub enum S {\n    #[%s("{_1}")]\n    V(Probe, Probe),\n    #[%s("{:x}", b)]\n    W { a: Probe, b: Probe },\n    #[%s("{0:?}", _0)]\n    X(Probe),\n}' % (attr, attr, attr)
        hsrc = """    #[kani::proof]
    #[kani::unwind(10)]
    fn flags_pass_through() {
        let o = any_opts();
        let s = match kani::any::<u8>() %% 3 { 0 => S::V(%(P)s, %(P)s), 1 => S::W { a: %(P)s, b: %(P)s }, _ => S::X(%(P)s) };
        let (want_id, want_tr): (u8, u8) = match &s { S::V(_, p) => (p.id, b'D'), S::W { b, .. } => (b.id, b'x'), S::X(p) => (p.id, b'?') };
        let (sink, tr) = run_fmt!(%(T)s, &s, o);
        assert!(tr.n == 1, "the argument must be formatted exactly once");
        assert!(tr.ev[0] == Some(Ev { id: want_id, tr: want_tr, opts: o }), "the argument did not see the caller's options under the placeholder's trait");
        assert!(sink.len == 2 && sink.buf[0] == want_tr && sink.buf[1] == b'a' + want_id, "output is not exactly what the argument prints");
        kani::cover!(matches!(s, S::W { .. }) && o.get_width().is_some(), "reach W with a width");
    }
""" % dict(P=P, T=trait)
        add("variant_level_bare", decl, hsrc, [PT], True)
        # ---- everything else is inert
        inert = [
            ("inert_align_width", "{:>3}", "_0"), ("inert_sign", "{:+}", "_0"), ("inert_sign_minus", "{:-}", "_0"),
            ("inert_sign_minus_typed_field", "{_1:-x}", None), ("inert_alternate", "{:#}", "_0"),
            ("inert_trailing_space", "{} ", "_0"), ("inert_trailing_newline", "{_0}\\n", None), ("inert_trailing_tab_typed", "{_1:?}\\t", None),
            ("inert_zero_width", "{:05}", "_0"), ("inert_precision", "{:.2}", "_0"), ("inert_hex_debug", "{:x?}", "_0"),
            ("inert_center", "{:^}", "_0"), ("inert_fill", "{:*<}", "_0"), ("inert_width_arg", "{:1$}", "_0, 4"),
            ("inert_leading_text", " {}", "_0"), ("inert_trailing_escape", "{}{{", "_0"), ("inert_two_implicit", "{}{}", "_0, _1"),
            ("inert_two_fields", "{_0}{_1}", None), ("inert_same_twice", "{0}{0}", "_1"), ("inert_typed_with_width", "{_1:3x}", None),
            ("inert_text_only_between", "{_0}-{_1:?}", None),
        ]
        for k, (name, lit, args) in enumerate(inert):
            body = '#[%s("%s"%s)]\n' % (attr, lit, (", " + args) if args else "") + two
            add(name, D + body, inert_harness("flags_are_inert", trait, c2), [IN],
                k % 4 == 0 or name in ("inert_sign_minus", "inert_trailing_newline"))
        # an inert variant next to a delegating one
        decl = D + 'pub enum S {\n    #[%s("{_0} ")]\n    V(Probe),\n    #[%s("{_0}")]\n    W(Probe),\n}' % (attr, attr)
        hsrc = """    #[kani::proof]
    #[kani::unwind(10)]
    fn per_variant_rule() {
        let o = any_opts();
        let s = if kani::any() { S::V(%(P)s) } else { S::W(%(P)s) };
        let (s1, t1) = run_fmt!(%(T)s, &s, o);
        let (s2, t2) = run_fmt!(%(T)s, &s, FormattingOptions::new());
        match &s {
            S::V(_) => assert!(s1.same(&s2) && t1 == t2, "flags must be inert for the variant whose literal has text"),
            S::W(p) => assert!(t1.n == 1 && t1.ev[0] == Some(Ev { id: p.id, tr: b'D', opts: o }), "flags must pass through for the bare variant"),
        }
        kani::cover!(matches!(s, S::V(_)), "reach V");
        kani::cover!(matches!(s, S::W(_)), "reach W");
    }
""" % dict(P=P, T=trait)
        add("variant_mixed", decl, hsrc,
            [Harness("per_variant_rule", "caller options, variant and probe ids symbolic", covers=2, unwind=10,
                     asserts="the delegation rule is applied per variant")], True)
    if tier == "quick":
        out = [s for s in out if s.quick]
    return out


DESCRIPTION = {
    "grid": "9 derives x {no attribute on tuple / named / enum-variant single-field types (8 Display-likes); 10 bare-placeholder forms "
            "(implicit, index, field by position / name, alias, expression, self expression, temporary, trailing comma); each of the 8 "
            "type letters as `{:t}` with an argument and `{_0:t}` naming a field; variant-level attributes} expected to pass flags through, "
            "and 21 literals with a modifier (incl. the `-` sign), leading / trailing text or whitespace, an escape or several placeholders expected to be inert; one enum mixing both",
    "symbolic": "the caller's whole FormattingOptions: fill in {' ', '*', '0', 'é'} x align(4) x sign(3) x # x 0 x width Option<u16> x "
                "precision Option<u16> x hex-debug(3); probe ids; the variant",
    "oracle": "pass-through: exactly one formatting call on the expected argument, under the placeholder's trait, with options == the "
              "caller's, sink == that argument's bytes; inert: sink and trace equal to the run under FormattingOptions::new()",
    "not_covered": ["'a placeholder whose index does not denote an existing argument is a compile error' - a must-not-compile fact is "
                    "rustc's verdict, not a solver's", "field types whose output is not a function of (value, options)"],
}
ASSUMPTIONS = ["a Formatter is (options, sink): a field that sees the same options under the same trait and whose bytes reach the sink "
               "unchanged prints what it prints when formatted directly"]


# ------------------------------------------------------------------------------------------------------------------
# decision half: engine L (llsym) on `FmtAttribute::transparent_call` itself (vf/llsym/rust/tc/probe_tc.rs)
#
# Which attributes are "one bare placeholder referring to its only argument / to a field by name" is decided by one function.  It is cut
# verbatim out of impl/src/fmt/mod.rs, run on a symbolic literal x every argument form below, and compared with the documented rule
# restated over std's own reading of the literal (the pinned oracle of C03).

TC_FAIL = {1: "the documented rule says delegate, the derive formats through write!",
           2: "the documented rule says do not delegate (not one bare placeholder, a modifier, no such argument, or std rejects literal / arguments), the derive delegates",
           3: "delegates to a different expression than the rule selects", 4: "delegates under a different trait"}
TC_ALPHABET = "{}:.*$01ab ?x<+#-^ep"
TC_N = {"quick": 4, "thorough": 6}
TC_DEEP = "{}:01ab ?x"
TC_DEEP_N = {"quick": 6, "thorough": 8}


def tc_cfg(*args):
    """args: (alias name or None, expression is a single identifier?, its name)"""
    c = len(args)
    for k, (alias, isid, name) in enumerate(args):
        a = (1 if alias is not None else 0) | ((1 if alias == "b" else 0) << 1) | ((1 if isid else 0) << 2) | ((1 if name == "b" else 0) << 3)
        c |= a << (2 + 4 * k)
    return c


TC_FORMS = [("no arguments", tc_cfg()), ("one identifier argument `a`", tc_cfg((None, True, "a"))), ("one expression argument", tc_cfg((None, False, "a"))),
            ("`a = <ident b>`", tc_cfg(("a", True, "b"))), ("`b = <expr>`", tc_cfg(("b", False, "a"))),
            ("two arguments `a, b`", tc_cfg((None, True, "a"), (None, True, "b"))), ("`a = <expr>, b`", tc_cfg(("a", False, "a"), (None, True, "b")))]


def tc_args_text(cfg):
    out = []
    for k in range(cfg & 3):
        a = (cfg >> (2 + 4 * k)) & 15
        e = ("ab"[(a >> 3) & 1]) if a & 4 else "x.y()"
        out.append((("ab"[(a >> 1) & 1] + " = ") if a & 1 else "") + e)
    return ", ".join(out)


def extra_pass(tier, kf):
    import json
    import multiprocessing
    import os
    import time
    import z3
    from .. import common
    from ..common import log
    from ..llsym import build, driver, native
    from ..llsym import engine as E
    out = {"violations": [], "known": [], "inconclusive": [], "coverage": {}}
    t0 = time.time()
    scratch = common.scratch_dir("C05-decision")
    try:
        b = build.build_tc_wrapper(scratch)
    except RuntimeError as e:
        out["inconclusive"].append("decision-half wrapper does not build: " + str(e)[-800:])
        return out
    mod = E.Module(b["ll"])
    recs, per = [], {}
    jobs = [(n, TC_ALPHABET) for n in range(0, TC_N[tier] + 1)] + [(n, TC_DEEP) for n in range(TC_N[tier] + 1, TC_DEEP_N[tier] + 1)]
    for fname, cfg in TC_FORMS:
        for n, alpha in jobs:
            outdir = os.path.join(scratch, "paths-%d-%d" % (cfg, n))
            os.makedirs(outdir)
            ex = driver.ParallelExec(mod, outdir, multiprocessing.Semaphore(common.NCPU - 1), max_steps=400000 * (n + 2))
            bs = [z3.BitVec("b%d" % i, 8) for i in range(n)]

            def setup(ex, st, n=n, bs=bs, cfg=cfg, alpha=alpha):
                buf = st.alloc(max(n, 1), "input")
                for i in range(n):
                    buf.data[i] = bs[i]
                dg = st.alloc(64, "digest")
                for i in range(64):
                    dg.data[i] = 0
                fr = st.frames[0]
                names = [p[1] for p in fr.fn.params]
                fr.regs[names[0]] = buf.base
                fr.regs[names[1]] = n
                fr.regs[names[2]] = dg.base
                fr.regs[names[3]] = cfg
                if n:
                    st.pc.append(z3.And(*[z3.Or(*[x == ord(c) for c in alpha]) for x in bs]))

            def describe(kind, detail, st, m, bs=bs, cfg=cfg):
                inp = [m.eval(x, model_completion=True).as_long() for x in bs] if m is not None else None
                rec = {"kind": kind, "input": inp, "cfg": cfg}
                if kind == "ret":
                    rv = detail
                    if E.is_sym(rv):
                        rv = m.eval(rv, model_completion=True).as_long()
                    rec["code"] = rv
                else:
                    rec["detail"] = str(detail)[:200]
                return rec
            ex.describe = describe
            ok = ex.run_parallel("@probe", setup)
            rs, stats, solver_s = driver.collect(outdir)
            if not ok:
                out["inconclusive"].append("a worker of the decision-half exploration died")
            k = "%s / %d bytes" % (fname, n)
            per[k] = {"paths": stats.get("paths", 0), "queries": stats.get("queries", 0), "solver_s": round(solver_s, 2)}
            recs += rs
        log("[C05] decision half, %s: %d paths so far" % (fname, len(recs)))
    rets = [r for r in recs if r["kind"] == "ret"]
    for r in recs:
        if r["kind"] != "ret":
            out["inconclusive"].append("decision-half path ended %s: %s (literal %r, args `%s`)" % (
                r["kind"], r.get("detail"), bytes(r["input"] or []).decode("utf8", "replace"), tc_args_text(r["cfg"])))
            break
    # native cross-check (return code must agree): all disagreeing paths and a sample of the agreeing ones
    fails = [r for r in rets if r["code"] != 0]
    sample = fails + [r for r in rets if r["code"] == 0][:6000]
    mism = 0
    bycfg = {}
    for r in sample:
        bycfg.setdefault(r["cfg"], []).append(r)
    for cfg, rs in bycfg.items():
        nat = native.run_native(b["so"], [bytes(r["input"]) for r in rs], extra=(cfg,))
        for r, x in zip(rs, nat):
            r["native"] = x
            if x.get("code") != r["code"]:
                mism += 1
    if mism:
        out["inconclusive"].append("llsym and the native build disagree on %d of %d decision-half paths" % (mism, len(sample)))
    groups = {}
    for r in fails:
        lit = bytes(r["input"]).decode("utf8", "replace")
        import re
        if r["code"] == 2 and re.fullmatch(r"\{0*[1-9][0-9]*\s*(:[?xXobeEp]?)?\s*\}", lit) and (r["cfg"] & 3) == 1:
            cls = "index-beyond-the-only-argument"
        elif r["code"] == 1 and re.fullmatch(r"\{[^{}:]*:\.[?xXobeEp]?\s*\}", lit):
            # the open C03 finding seen from here: std reads `{:.}` as "precision implied", the parser returns None, nothing is delegated
            cls = "dot-without-precision"
        else:
            cls = "other"
        groups.setdefault("decision/%d/%s" % (r["code"], cls), []).append(r)
    replay_dir = os.path.join(common.REPLAY_DIR, "C05")
    os.makedirs(replay_dir, exist_ok=True)
    for key, rs in sorted(groups.items()):
        text = kf.match("C05", key)
        r = min(rs, key=lambda r: (len(r["input"]), r["input"]))
        lit = bytes(r["input"]).decode("utf8", "replace")
        if text is not None:
            out["known"].append("KNOWN-FINDING: property=C05 key=%s %s (%d paths, e.g. `#[display(%r, %s)]`)" % (key, text, len(rs), lit, tc_args_text(r["cfg"])))
            continue
        if not (r.get("native") and r["native"].get("code") == r["code"]):
            out["inconclusive"].append("decision disagreement %s did not reproduce natively" % key)
            continue
        path = os.path.join(replay_dir, "decision_%s.json" % "".join(c if c.isalnum() else "_" for c in key)[:60])
        json.dump({"property": "C05", "class": key, "meaning": TC_FAIL.get(r["code"]), "literal": lit, "bytes": r["input"], "cfg": r["cfg"],
                   "arguments": tc_args_text(r["cfg"]), "user_level": "#[derive(Display)] #[display(%s%s)]" % (json.dumps(lit), (", " + tc_args_text(r["cfg"])) if r["cfg"] & 3 else ""),
                   "native": r["native"], "paths_in_class": len(rs), "others": [bytes(x["input"]).decode("utf8", "replace") for x in rs[:10]]}, open(path, "w"), indent=1)
        out["violations"].append((key, path, "%s: `#[display(%r%s)]` (%d paths)" % (TC_FAIL.get(r["code"]), lit, (", " + tc_args_text(r["cfg"])) if r["cfg"] & 3 else "", len(rs))))
    out["coverage"] = {
        "decision_half": {
            "engine": "llsym over the LLVM IR of vf/llsym/rust/tc/probe_tc.rs: FmtAttribute::transparent_call, FmtAttribute, FmtArgument cut verbatim out of "
                      "impl/src/fmt/mod.rs + the working-tree impl/src/fmt/parsing.rs and impl/src/parsing.rs (Expr), against syn/proc_macro2/quote stubs",
            "functions_encoded": ["impl/src/fmt/mod.rs::FmtAttribute::transparent_call", "impl/src/fmt/parsing.rs::format (and everything it calls)",
                                  "vf/llsym/rust/oracle.rs::reference (std's reading of the literal, pinned against rustc_parse_format)"],
            "bounds": {"literal": "every string of <= %d bytes over `%s`, then <= %d bytes over `%s`" % (TC_N[tier], TC_ALPHABET, TC_DEEP_N[tier], TC_DEEP),
                       "argument_forms": [f for f, _ in TC_FORMS],
                       "outside": "longer literals, other characters, three or more arguments; what the delegated call then does with the caller's flags is the Kani half"},
            "paths": len(recs), "paths_agreeing": len([r for r in rets if r["code"] == 0]), "paths_disagreeing": len(fails),
            "solver_queries": sum(v["queries"] for v in per.values()), "solver_s": round(sum(v["solver_s"] for v in per.values()), 1),
            "native_cross_check": {"paths": len(sample), "mismatches": mism}, "wall_s": round(time.time() - t0, 1),
            "per_form_and_length": per,
            "samples": [{"literal": bytes(r["input"]).decode("utf8", "replace"), "arguments": tc_args_text(r["cfg"]), "verdict": r["code"]} for r in (rets[-3:] + fails[:3])],
        }
    }
    return out


def replay_json(path):
    """./check C05 --replay <decision_*.json>"""
    import json
    from .. import common
    from ..llsym import build, native
    j = json.load(open(path))
    b = build.build_tc_wrapper(common.scratch_dir("C05-replay"))
    out = native.run_native(b["so"], [bytes(j["bytes"])], extra=(j["cfg"],))[0]
    print("#[display(%r, %s)] -> native %s" % (j["literal"], j["arguments"], out))
    if out.get("abort") or out.get("code") not in (0,):
        print("VIOLATION property=C05 replay=%s" % path)
        return common.EXIT_VIOLATION
    return common.EXIT_OK
