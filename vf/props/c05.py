"""C05 - the caller's formatting flags pass through exactly for bare-placeholder formats, and are inert otherwise.

The caller's format spec is a *symbolic* core::fmt::FormattingOptions (fill, alignment, sign, `#`, `0`, width,
precision, hex-debug): every harness is decided for all of them at once."""
from ..shapes import Shape, Harness
from . import fmtsupport
from .fmtsupport import TRAITS, TRAIT_BY_NAME

CRATE_ATTRS = fmtsupport.CRATE_ATTRS
SUPPORT = fmtsupport.SUPPORT

HEAD = "#![allow(dead_code, unused, clippy::all)]\nuse crate::support::*;\nuse crate::run_fmt;\nuse core::fmt::{self, FormattingOptions};\n\n"

LETTERS = {"": "Display", "b": "Binary", "o": "Octal", "x": "LowerHex", "X": "UpperHex", "e": "LowerExp", "E": "UpperExp",
           "p": "Pointer", "?": "Debug"}


def letter_byte(trait):
    return "b'%s'" % TRAIT_BY_NAME[trait][3]


def module(decl, harness_src):
    return HEAD + decl + "\n\n#[cfg(kani)]\nmod proofs {\n    use super::*;\n" + harness_src + "}\n"


def passthrough_harness(fn, derived, ctor, expect_id_expr, seen_trait, extra=""):
    return """    #[kani::proof]
    #[kani::unwind(10)]
    fn %(fn)s() {
        let o = any_opts();
        let s = %(ctor)s;
        let want_id: u8 = %(idx)s;
        let (sink, tr) = run_fmt!(%(derived)s, &s, o);
        assert!(tr.n == 1, "the argument must be formatted exactly once");
        assert!(tr.ev[0] == Some(Ev { id: want_id, tr: %(lb)s, opts: o }),
                "the argument did not see the caller's options under the placeholder's trait");
        assert!(sink.len == 2 && sink.buf[0] == %(lb)s && sink.buf[1] == b'a' + want_id && !sink.overflow,
                "output is not exactly what the argument prints");
        kani::cover!(o.get_width().is_some() && o.get_alternate(), "reach non-default options");
%(extra)s    }
""" % dict(fn=fn, ctor=ctor, idx=expect_id_expr, derived=derived, lb=letter_byte(seen_trait), extra=extra)


def inert_harness(fn, derived, ctor):
    return """    #[kani::proof]
    #[kani::unwind(10)]
    fn %(fn)s() {
        let o = any_opts();
        let s = %(ctor)s;
        let (s1, t1) = run_fmt!(%(derived)s, &s, o);
        let (s2, t2) = run_fmt!(%(derived)s, &s, FormattingOptions::new());
        assert!(s1.same(&s2), "the caller's flags changed the output of a non-bare format");
        assert!(t1.n == t2.n && t1.ev[0] == t2.ev[0] && t1.ev[1] == t2.ev[1] && t1.ev[2] == t2.ev[2],
                "the caller's flags reached an argument of a non-bare format");
        assert!(t1.n >= 1 && s1.len >= 2 && !s1.overflow);
        kani::cover!(o.get_width().is_some() && o.get_alternate(), "reach non-default options");
    }
""" % dict(fn=fn, derived=derived, ctor=ctor)


P = "Probe::new(kani::any())"


def shapes(tier):
    out = []
    for trait, attr, sfx, _ in TRAITS:
        q_trait = trait in ("Display", "LowerHex", "Debug", "Pointer")
        own_letter = sfx

        def add(name, decl, hsrc, hs, quick):
            out.append(Shape("c05_%s_%s" % (attr, name), module(decl, hsrc), hs, decl.replace("\n", " "),
                             exercises=["impl/src/fmt/mod.rs::FmtAttribute::transparent_call", "impl/src/fmt/mod.rs::transparent_call_on_fields",
                                        "impl/src/fmt/display.rs::Expansion::generate_body" if trait != "Debug" else "impl/src/fmt/debug.rs::Expansion::generate_body"],
                             quick=quick and q_trait, crate_attrs=CRATE_ATTRS))

        D = "#[derive(derive_more::%s)]\n" % trait
        PT = Harness("flags_pass_through", "the caller's FormattingOptions fully symbolic; probe ids symbolic", covers=1, unwind=10,
                     asserts="the argument is formatted exactly once, under the placeholder's trait, with exactly the caller's options; output = its bytes")
        IN = Harness("flags_are_inert", "the caller's FormattingOptions fully symbolic; probe ids symbolic", covers=1, unwind=10,
                     asserts="output and every argument's (trait, options) are the same as under default options")
        # ---- no attribute on single-field types (Display-likes only)
        if trait != "Debug":
            add("noattr_tuple", D + "pub struct S(pub Probe);", passthrough_harness("flags_pass_through", trait, "S(%s)" % P, "s.0.id", trait), [PT], True)
            add("noattr_named", D + "pub struct S { pub x: Probe }", passthrough_harness("flags_pass_through", trait, "S { x: %s }" % P, "s.x.id", trait), [PT], False)
            decl = D + "pub enum S { V(Probe), W { y: Probe } }"
            add("noattr_variants", decl,
                passthrough_harness("flags_pass_through", trait, "if kani::any() { S::V(%s) } else { S::W { y: %s } }" % (P, P),
                                    "match &s { S::V(p) => p.id, S::W { y } => y.id }", trait), [PT], True)
        # ---- bare placeholders that must delegate
        two = "pub struct S(pub Probe, pub Probe);"
        named2 = "pub struct S { pub x: Probe, pub y: Probe }"
        c2 = "S(%s, %s)" % (P, P)
        cn = "S { x: %s, y: %s }" % (P, P)
        bare = [
            ("bare_implicit", '#[%s("{}", _1)]\n' % attr + two, c2, "s.1.id", "Display", True),
            ("bare_index0", '#[%s("{0}", _0)]\n' % attr + two, c2, "s.0.id", "Display", False),
            ("bare_field_positional", '#[%s("{_1}")]\n' % attr + two, c2, "s.1.id", "Display", True),
            ("bare_field_named", '#[%s("{y}")]\n' % attr + named2, cn, "s.y.id", "Display", True),
            ("bare_alias", '#[%s("{n}", n = _1)]\n' % attr + two, c2, "s.1.id", "Display", True),
            ("bare_alias_named_field", '#[%s("{n}", n = x)]\n' % attr + named2, cn, "s.x.id", "Display", False),
            ("bare_expr", '#[%s("{}", _1.pick())]\n' % attr + two, c2, "s.1.id", "Display", True),
            ("bare_expr_self", '#[%s("{}", self.0.pick())]\n' % attr + two, c2, "s.0.id", "Display", False),
            ("bare_expr_temporary", '#[%s("{}", _0.twin())]\n' % attr + two, c2, "(s.0.id + 1) & 15", "Display", False),
            ("bare_trailing_comma", '#[%s("{}", _0,)]\n' % attr + two, c2, "s.0.id", "Display", False),
            # a positional placeholder may refer to an argument written in named form (format_args! numbers named arguments too)
            ("bare_implicit_to_named_arg", '#[%s("{}", n = _1)]\n' % attr + two, c2, "s.1.id", "Display", True),
            ("bare_index0_to_named_arg", '#[%s("{0}", n = _0)]\n' % attr + two, c2, "s.0.id", "Display", False),
            # a field whose raw-identifier name is a keyword, named in the literal without the `r#`
            ("bare_field_raw_keyword", '#[%s("{type}")]\n' % attr + "pub struct S { pub r#type: Probe, pub y: Probe }",
             "S { r#type: %s, y: %s }" % (P, P), "s.r#type.id", "Display", True),
            ("bare_field_raw_keyword_typed", '#[%s("{fn:x}")]\n' % attr + "pub struct S { pub x: Probe, pub r#fn: Probe }",
             "S { x: %s, r#fn: %s }" % (P, P), "s.r#fn.id", "LowerHex", False),
            ("bare_typed_to_named_arg", '#[%s("{:x}", v = self.1.pick())]\n' % attr + two, c2, "s.1.id", "LowerHex", False),
        ]
        for l, lt in LETTERS.items():
            if l == "":
                continue
            ln = {"b": "b", "o": "o", "x": "lx", "X": "ux", "e": "le", "E": "ue", "p": "p", "?": "dbg"}[l]
            # `{:p}` with the field as argument formats a *reference* to the field (std prints its address): the probe's own Pointer impl is
            # reached through `*_1`, as in the repository's own tests
            bare.append(("bare_type_%s_arg" % ln, '#[%s("{:%s}", %s_1)]\n' % (attr, l, "*" if l == "p" else "") + two, c2, "s.1.id", lt, l in ("x", "?", "p")))
            bare.append(("bare_type_%s_field" % ln, '#[%s("{_0:%s}")]\n' % (attr, l) + two, c2, "s.0.id", lt, l in ("X", "e")))
        for name, body, ctor, idx, seen, quick in bare:
            add(name, D + body, passthrough_harness("flags_pass_through", trait, ctor, idx, seen), [PT], quick)
        # variant-level attributes
        decl = D + 'pub enum S {\n    #[%s("{_1}")]\n    V(Probe, Probe),\n    #[%s("{:x}", b)]\n    W { a: Probe, b: Probe },\n    #[%s("{0:?}", _0)]\n    X(Probe),\n}' % (attr, attr, attr)
        hsrc = """    #[kani::proof]
    #[kani::unwind(10)]
    fn flags_pass_through() {
        let o = any_opts();
        let s = match kani::any::<u8>() %% 3 { 0 => S::V(%(P)s, %(P)s), 1 => S::W { a: %(P)s, b: %(P)s }, _ => S::X(%(P)s) };
        let (want_id, want_tr): (u8, u8) = match &s { S::V(_, p) => (p.id, b'D'), S::W { b, .. } => (b.id, b'x'), S::X(p) => (p.id, b'?') };
        let (sink, tr) = run_fmt!(%(T)s, &s, o);
        assert!(tr.n == 1, "the argument must be formatted exactly once");
        assert!(tr.ev[0] == Some(Ev { id: want_id, tr: want_tr, opts: o }), "the argument did not see the caller's options under the placeholder's trait");
        assert!(sink.len == 2 && sink.buf[0] == want_tr && sink.buf[1] == b'a' + want_id, "output is not exactly what the argument prints");
        kani::cover!(matches!(s, S::W { .. }) && o.get_width().is_some(), "reach W with a width");
    }
""" % dict(P=P, T=trait)
        add("variant_level_bare", decl, hsrc, [PT], True)
        # ---- everything else is inert
        inert = [
            ("inert_align_width", "{:>3}", "_0"), ("inert_sign", "{:+}", "_0"), ("inert_sign_minus", "{:-}", "_0"),
            ("inert_sign_minus_typed_field", "{_1:-x}", None), ("inert_alternate", "{:#}", "_0"),
            ("inert_trailing_space", "{} ", "_0"), ("inert_trailing_newline", "{_0}\\n", None), ("inert_trailing_tab_typed", "{_1:?}\\t", None),
            ("inert_zero_width", "{:05}", "_0"), ("inert_precision", "{:.2}", "_0"), ("inert_hex_debug", "{:x?}", "_0"),
            ("inert_center", "{:^}", "_0"), ("inert_fill", "{:*<}", "_0"), ("inert_width_arg", "{:1$}", "_0, 4"),
            ("inert_leading_text", " {}", "_0"), ("inert_trailing_escape", "{}{{", "_0"), ("inert_two_implicit", "{}{}", "_0, _1"),
            ("inert_two_fields", "{_0}{_1}", None), ("inert_same_twice", "{0}{0}", "_1"), ("inert_typed_with_width", "{_1:3x}", None),
            ("inert_text_only_between", "{_0}-{_1:?}", None),
        ]
        for k, (name, lit, args) in enumerate(inert):
            body = '#[%s("%s"%s)]\n' % (attr, lit, (", " + args) if args else "") + two
            add(name, D + body, inert_harness("flags_are_inert", trait, c2), [IN],
                k % 4 == 0 or name in ("inert_sign_minus", "inert_trailing_newline"))
        # an inert variant next to a delegating one
        decl = D + 'pub enum S {\n    #[%s("{_0} ")]\n    V(Probe),\n    #[%s("{_0}")]\n    W(Probe),\n}' % (attr, attr)
        hsrc = """    #[kani::proof]
    #[kani::unwind(10)]
    fn per_variant_rule() {
        let o = any_opts();
        let s = if kani::any() { S::V(%(P)s) } else { S::W(%(P)s) };
        let (s1, t1) = run_fmt!(%(T)s, &s, o);
        let (s2, t2) = run_fmt!(%(T)s, &s, FormattingOptions::new());
        match &s {
            S::V(_) => assert!(s1.same(&s2) && t1 == t2, "flags must be inert for the variant whose literal has text"),
            S::W(p) => assert!(t1.n == 1 && t1.ev[0] == Some(Ev { id: p.id, tr: b'D', opts: o }), "flags must pass through for the bare variant"),
        }
        kani::cover!(matches!(s, S::V(_)), "reach V");
        kani::cover!(matches!(s, S::W(_)), "reach W");
    }
""" % dict(P=P, T=trait)
        add("variant_mixed", decl, hsrc,
            [Harness("per_variant_rule", "caller options, variant and probe ids symbolic", covers=2, unwind=10,
                     asserts="the delegation rule is applied per variant")], True)
        # an enum-level default format (no `_variant`) takes no part in a variant that has its own attribute: its bare placeholder still delegates
        # (seed C05-own-bare-placeholder-not-delegated-under-enum-default)
        decl = D + '#[%s("default")]\npub enum S {\n    #[%s("{_0}")]\n    W(Probe),\n    X(Probe),\n    #[%s("{}", _0)]\n    Y(Probe),\n}' % (attr, attr, attr)
        hsrc = """    #[kani::proof]
    #[kani::unwind(10)]
    fn own_attribute_under_enum_default() {
        let o = any_opts();
        let s = match kani::any::<u8>() %% 3 { 0 => S::W(%(P)s), 1 => S::X(%(P)s), _ => S::Y(%(P)s) };
        let (s1, t1) = run_fmt!(%(T)s, &s, o);
        let (s2, t2) = run_fmt!(%(T)s, &s, FormattingOptions::new());
        match &s {
            S::W(p) | S::Y(p) => assert!(t1.n == 1 && t1.ev[0] == Some(Ev { id: p.id, tr: b'D', opts: o }), "a variant's own bare placeholder must pass the flags through, whatever the enum-level default says"),
            S::X(_) => assert!(s1.same(&s2) && t1 == t2 && t1.n == 0, "the variant without attribute prints the enum-level default text"),
        }
        kani::cover!(matches!(s, S::W(_)), "reach W");
        kani::cover!(matches!(s, S::X(_)), "reach X");
    }
""" % dict(P=P, T=trait)
        if trait != "Debug":   # an enum-level format is rejected for Debug (C07)
            add("variant_bare_under_enum_default", decl, hsrc,
                [Harness("own_attribute_under_enum_default", "caller options, variant and probe ids symbolic", covers=2, unwind=10,
                         asserts="a variant's own bare placeholder delegates also when the enum carries a default format")], True)
    # "in every other attribute-driven case the caller's flags leave the output unchanged": a bare enum-level `{_variant}` on a derive OTHER than
    # Display is such a case (it renders the variant and interpolates the text) - the shape is C07's, shared
    from . import c07
    sh = c07.bare_variant_flags_shape()
    sh.name = "c05_bare_variant_on_non_display_derives"
    out.append(sh)
    # 'an index that denotes no argument must not delegate' seen from the user's side: format_args! has to see the literal and reject it
    # (fix 445ad48).  Must-not-compile programs, decided by rustc while the harness crate is built - not a solver result.
    from ..shapes import reject_shape
    for n, prog in (("index_beyond_only_argument", '#[derive(derive_more::Display)] #[display("{1}", _0)] pub struct S(u8);'),
                    ("index_beyond_only_argument_debug", '#[derive(derive_more::Display)] #[display("{1:?}", a)] pub struct S { a: u8 }'),
                    ("index_beyond_only_argument_variant", '#[derive(derive_more::Display)] pub enum E { #[display("{01}", _0)] A(u8), B }'),
                    ("index_beyond_only_argument_hex_derive", '#[derive(derive_more::LowerHex)] #[lower_hex("{1:x}", _0)] pub struct S(u8);'),
                    ("index_without_arguments", '#[derive(derive_more::Display)] #[display("{0}")] pub struct S(u8);')):
        out.append(reject_shape("c05", n, prog, "a bare placeholder whose index denotes no argument", ["impl/src/fmt/mod.rs::FmtAttribute::transparent_call"]))
    if tier == "quick":
        out = [s for s in out if s.quick]
    return out


DESCRIPTION = {
    "grid": "9 derives x {no attribute on tuple / named / enum-variant single-field types (8 Display-likes); 10 bare-placeholder forms "
            "(implicit, index, field by position / name, alias, expression, self expression, temporary, trailing comma); each of the 8 "
            "type letters as `{:t}` with an argument and `{_0:t}` naming a field; variant-level attributes} expected to pass flags through, "
            "and 21 literals with a modifier (incl. the `-` sign), leading / trailing text or whitespace, an escape or several placeholders expected to be inert; one enum mixing both",
    "symbolic": "the caller's whole FormattingOptions: fill in {' ', '*', '0', 'é'} x align(4) x sign(3) x # x 0 x width Option<u16> x "
                "precision Option<u16> x hex-debug(3); probe ids; the variant",
    "oracle": "pass-through: exactly one formatting call on the expected argument, under the placeholder's trait, with options == the "
              "caller's, sink == that argument's bytes; inert: sink and trace equal to the run under FormattingOptions::new()",
    "not_covered": ["'a placeholder whose index does not denote an existing argument is a compile error' - a must-not-compile fact is "
                    "rustc's verdict, not a solver's", "field types whose output is not a function of (value, options)"],
}
ASSUMPTIONS = ["a Formatter is (options, sink): a field that sees the same options under the same trait and whose bytes reach the sink "
               "unchanged prints what it prints when formatted directly"]


# ------------------------------------------------------------------------------------------------------------------
# decision half: engine L (llsym) on `FmtAttribute::transparent_call` itself - see vf/props/tcall.py and DESIGN.md 10.10

TC_FAIL = {1: "the documented rule says delegate, the derive formats through write!",
           2: "the documented rule says do not delegate (not one bare placeholder, a modifier, no such argument, or std rejects literal / arguments), the derive delegates",
           3: "delegates to a different expression than the rule selects", 4: "delegates under a different trait"}


def _classify(code, lit, cfg):
    import re
    if code == 2 and re.fullmatch(r"\{0*[1-9][0-9]*\s*(:[?xXobeEp]?)?\s*\}", lit) and (cfg & 3) == 1:
        return "index-beyond-the-only-argument"
    from . import tcall
    if code == 1 and tcall.has_dot_without_precision(lit):
        # the open C03 finding seen from here: std reads `{:.}` as "precision implied", the parser returns None, nothing is delegated
        return "dot-without-precision"
    return "other"


def extra_pass(tier, kf):
    from . import tcall
    return tcall.run("C05", "probe", tcall.TC_FORMS, tier, kf, TC_FAIL, _classify, "FmtAttribute::transparent_call, FmtAttribute, FmtArgument",
                     ["impl/src/fmt/mod.rs::FmtAttribute::transparent_call"])


def replay_json(path):
    """./check C05 --replay <decision_*.json>"""
    from . import tcall
    return tcall.replay_json("C05", path)
