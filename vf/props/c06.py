"""C06 - derive_more::Debug without attributes is indistinguishable from std's Debug (flat `{:?}` half, engine K).

Pairs of identical definitions: `mod dm` derives derive_more::Debug, `mod sd` derives (or hand-writes with std's
builders) std's.  The caller's options are symbolic except the `#` bit, which is fixed to 0: with `#` set CBMC has to
explore the pretty-printing adapters (memchr over every write_str) and does not come back (DESIGN.md §1.3)."""
import itertools

from ..shapes import Shape, Harness
from . import fmtsupport

CRATE_ATTRS = fmtsupport.CRATE_ATTRS
SUPPORT = fmtsupport.SUPPORT

HEAD = ("#![allow(dead_code, unused, clippy::all, non_camel_case_types)]\nuse crate::support::*;\nuse crate::run_fmt;\n"
        "use core::fmt::{self, FormattingOptions, Write as _};\n\n")
P = "Probe::new(%s)"


def module(dm, sd, harness_src):
    def ind(s):
        return "\n".join("    " + l if l else l for l in s.splitlines())
    return (HEAD + "pub mod dm {\n    use crate::support::*;\n" + ind(dm) + "\n}\npub mod sd {\n    use crate::support::*;\n    use core::fmt;\n" + ind(sd)
            + "\n}\n\n#[cfg(kani)]\nmod proofs {\n    use super::*;\n" + harness_src + "}\n")


# The flags word is taken from a concrete list (DESIGN.md §1.3: a symbolic flags word, or even symbolic *presence* of width /
# precision, makes CBMC explore the pretty-printing path and memchr everywhere); the width and precision *values* are symbolic.
OPT_VARIANTS = [
    ("default", "let o = FormattingOptions::new();", True),
    ("hex_lower_width", "let mut o = FormattingOptions::new(); o.debug_as_hex(Some(fmt::DebugAsHex::Lower)); o.width(Some(kani::any()));", True),
    ("hex_upper_precision", "let mut o = FormattingOptions::new(); o.debug_as_hex(Some(fmt::DebugAsHex::Upper)); o.precision(Some(kani::any()));", False),
    ("plus_zero_width_precision", "let mut o = FormattingOptions::new(); o.sign(Some(fmt::Sign::Plus)); o.sign_aware_zero_pad(true); o.width(Some(kani::any())); o.precision(Some(kani::any()));", True),
    ("fill_left_width", "let mut o = FormattingOptions::new(); o.fill('*'); o.align(Some(fmt::Alignment::Left)); o.width(Some(kani::any()));", False),
    ("fill_utf8_center_minus", "let mut o = FormattingOptions::new(); o.fill('é'); o.align(Some(fmt::Alignment::Center)); o.sign(Some(fmt::Sign::Minus)); o.precision(Some(kani::any()));", False),
]


TIER = ["thorough"]


def pair_harness(fn, mk, nids, covers_extra=""):
    ids = "".join("        let i%d: u8 = kani::any();\n" % k for k in range(nids))
    out = ""
    for vname, vsrc, vq in OPT_VARIANTS:
        if TIER[0] == "quick" and not vq:
            continue
        out += """    #[kani::proof]
    #[kani::unwind(10)]
    fn %(fn)s_%(v)s() {
%(ids)s        %(opts)s
        let a = %(mka)s;
        let b = %(mkb)s;
        let (s1, t1) = run_fmt!(Debug, &a, o);
        let (s2, t2) = run_fmt!(Debug, &b, o);
        assert!(!s1.overflow && !s2.overflow, "HARNESS: sink too small");
        assert!(s1.same(&s2), "derive_more::Debug output differs from std's Debug");
        assert!(t1 == t2, "fields saw different (trait, options) than under std's Debug");
        kani::cover!(s1.len >= 1, "reach non-empty output");
%(cov)s    }
""" % dict(fn=fn, v=vname, ids=ids, opts=vsrc, mka=mk("dm"), mkb=mk("sd"), cov=covers_extra)
    return out


def H(extra=0):
    return [Harness("same_as_std_debug_" + v, "width / precision values symbolic (u16), probe ids symbolic, variant symbolic for enums; "
                    "flags word concrete: " + v, covers=1 + extra, unwind=10, quick=q,
                    asserts="sink bytes equal std's and every field saw the same (trait, options) in the same order")
            for v, _, q in OPT_VARIANTS if q or TIER[0] != "quick"]


def plain_pairs():
    out = []

    def add(name, defs, mk, nids, quick=True, extra_cov="", ncov=0):
        out.append(Shape("c06_flat_%s" % name, module(defs("derive_more::Debug"), defs("Debug"), pair_harness("same_as_std_debug", mk, nids, extra_cov)),
                         H(ncov), defs("derive_more::Debug").replace("\n", " "),
                         exercises=["impl/src/fmt/debug.rs::Expansion::generate_body", "src/fmt.rs::DebugTuple"], quick=quick, crate_attrs=CRATE_ATTRS))

    add("unit", lambda d: "#[derive(%s)]\npub struct S;" % d, lambda m: "%s::S" % m, 0)
    add("empty_tuple", lambda d: "#[derive(%s)]\npub struct S();" % d, lambda m: "%s::S()" % m, 0)
    add("empty_named", lambda d: "#[derive(%s)]\npub struct S {}" % d, lambda m: "%s::S {}" % m, 0, quick=False)
    for n in (1, 2, 3):
        add("tuple%d" % n, lambda d, n=n: "#[derive(%s)]\npub struct S(%s);" % (d, ", ".join(["pub Probe"] * n)),
            lambda m, n=n: "%s::S(%s)" % (m, ", ".join(P % ("i%d" % k) for k in range(n))), n, quick=n != 2)
        add("named%d" % n, lambda d, n=n: "#[derive(%s)]\npub struct S { %s }" % (d, ", ".join("pub %s: Probe" % "abc"[k] for k in range(n))),
            lambda m, n=n: "%s::S { %s }" % (m, ", ".join("%s: %s" % ("abc"[k], P % ("i%d" % k)) for k in range(n))), n, quick=n == 2)
    # enum mixing everything
    edef = lambda d: ("#[derive(%s)]\npub enum E { U, T0(), N0 {}, T1(Probe), T2(Probe, Probe), N1 { a: Probe }, N2 { a: Probe, b: Probe } }" % d)  # noqa
    emk = lambda m: ("match sel %% 7 { 0 => %s::E::U, 1 => %s::E::T0(), 2 => %s::E::N0 {}, 3 => %s::E::T1(%s), 4 => %s::E::T2(%s, %s), "  # noqa
                     "5 => %s::E::N1 { a: %s }, _ => %s::E::N2 { a: %s, b: %s } }" % (
                         m, m, m, m, P % "i0", m, P % "i0", P % "i1", m, P % "i0", m, P % "i0", P % "i1"))
    hs = pair_harness("same_as_std_debug", emk, 2, "        kani::cover!(sel % 7 == 4, \"reach T2\");\n        kani::cover!(sel % 7 == 6, \"reach N2\");\n")
    hs = hs.replace("        let i0: u8 = kani::any();\n", "        let sel: u8 = kani::any();\n        let i0: u8 = kani::any();\n")
    out.append(Shape("c06_flat_enum_mixed", module(edef("derive_more::Debug"), edef("Debug"), hs), H(2), edef("derive_more::Debug").replace("\n", " "),
                     exercises=["impl/src/fmt/debug.rs::expand_enum", "src/fmt.rs::DebugTuple"], crate_attrs=CRATE_ATTRS))
    # generic and nested
    add("generic", lambda d: "#[derive(%s)]\npub struct S<T, U>(pub T, pub U);\n#[derive(%s)]\npub struct N<'a, T: ?Sized> { pub r: &'a T, pub k: Probe }" % (d, d),
        lambda m: "(%s::S(%s, %s::N { r: &ANCHOR_PROBE, k: Probe::new(3) }))" % (m, P % "i0", m), 1)
    add("nested", lambda d: "#[derive(%s)]\npub struct Inner(pub Probe, pub Probe);\n#[derive(%s)]\npub struct Mid { pub x: Inner, pub y: Probe }\n#[derive(%s)]\npub struct S(pub Mid, pub Inner);" % (d, d, d),
        lambda m: "%s::S(%s::Mid { x: %s::Inner(%s, %s), y: %s }, %s::Inner(%s, %s))" % (m, m, m, P % "i0", P % "i1", P % "i2", m, P % "i1", P % "i0"), 3)
    # raw identifiers: type, variant and field names
    add("raw_identifiers", lambda d: "#[derive(%s)]\npub struct r#fn(pub Probe);\n#[derive(%s)]\npub struct r#struct { pub r#type: Probe, pub r#mod: Probe }\n"
        "#[derive(%s)]\npub struct r#enum;\n#[derive(%s)]\npub enum K { r#loop, r#match(Probe), r#while { r#as: Probe } }" % (d, d, d, d),
        lambda m: "(%s::r#fn(%s), %s::r#struct { r#type: %s, r#mod: %s }, %s::r#enum, if i0 & 1 == 0 { %s::K::r#loop } else if i0 & 2 == 0 { %s::K::r#match(%s) } else { %s::K::r#while { r#as: %s } })" % (
            m, P % "i0", m, P % "i1", P % "i0", m, m, m, P % "i1", m, P % "i1"), 2)
    return out


def skip_pairs():
    """every subset of skipped fields for <= 3 fields, against std's builders + finish_non_exhaustive()"""
    out = []
    for named in (False, True):
        for n in (1, 2, 3):
            for skipped in itertools.product([False, True], repeat=n):
                if not any(skipped):
                    continue
                tag = ("named" if named else "tuple") + "".join("s" if s else "k" for s in skipped)
                names = ["a", "b", "c"][:n]
                attr = ["#[debug(skip)] " if s and k % 2 == 0 else ("#[debug(ignore)] " if s else "") for k, s in enumerate(skipped)]
                if named:
                    dm = "#[derive(derive_more::Debug)]\npub struct S { %s }" % ", ".join("%spub %s: Probe" % (attr[k], names[k]) for k in range(n))
                    fields = "".join(".field(\"%s\", &self.%s)" % (names[k], names[k]) for k in range(n) if not skipped[k])
                    sd = ("pub struct S { %s }\nimpl fmt::Debug for S {\n    fn fmt(&self, f: &mut fmt::Formatter<'_>) -> fmt::Result {\n"
                          "        f.debug_struct(\"S\")%s.finish_non_exhaustive()\n    }\n}") % (", ".join("pub %s: Probe" % x for x in names), fields)
                    mk = lambda m, n=n, names=names: "%s::S { %s }" % (m, ", ".join("%s: %s" % (names[k], P % ("i%d" % k)) for k in range(n)))  # noqa
                else:
                    dm = "#[derive(derive_more::Debug)]\npub struct S(%s);" % ", ".join("%spub Probe" % attr[k] for k in range(n))
                    fields = "".join(".field(&self.%d)" % k for k in range(n) if not skipped[k])
                    sd = ("pub struct S(%s);\nimpl fmt::Debug for S {\n    fn fmt(&self, f: &mut fmt::Formatter<'_>) -> fmt::Result {\n"
                          "        f.debug_tuple(\"S\")%s.finish_non_exhaustive()\n    }\n}") % (", ".join(["pub Probe"] * n), fields)
                    mk = lambda m, n=n: "%s::S(%s)" % (m, ", ".join(P % ("i%d" % k) for k in range(n)))  # noqa
                out.append(Shape("c06_flat_skip_%s" % tag, module(dm, sd, pair_harness("same_as_std_debug", mk, n)), H(),
                                 dm.replace("\n", " "), exercises=["impl/src/fmt/debug.rs::Expansion::generate_body (skip)", "src/fmt.rs::DebugTuple::finish_non_exhaustive"],
                                 quick=tag in ("tupleksk", "tuples", "namedsk", "tuplesss", "namedkks"), crate_attrs=CRATE_ATTRS))
    # skipped fields inside enum variants
    dm = "#[derive(derive_more::Debug)]\npub enum E { T(Probe, #[debug(skip)] Probe), N { #[debug(skip)] a: Probe, b: Probe }, U }"
    sd = ("pub enum E { T(Probe, Probe), N { a: Probe, b: Probe }, U }\nimpl fmt::Debug for E {\n    fn fmt(&self, f: &mut fmt::Formatter<'_>) -> fmt::Result {\n"
          "        match self {\n            E::T(x, _) => f.debug_tuple(\"T\").field(x).finish_non_exhaustive(),\n"
          "            E::N { b, .. } => f.debug_struct(\"N\").field(\"b\", b).finish_non_exhaustive(),\n            E::U => f.write_str(\"U\"),\n        }\n    }\n}")
    mk = lambda m: "match i0 %% 3 { 0 => %s::E::T(%s, %s), 1 => %s::E::N { a: %s, b: %s }, _ => %s::E::U }" % (m, P % "i1", P % "i2", m, P % "i1", P % "i2", m)  # noqa
    out.append(Shape("c06_flat_skip_enum", module(dm, sd, pair_harness("same_as_std_debug", mk, 3)), H(), dm.replace("\n", " "),
                     exercises=["impl/src/fmt/debug.rs::expand_enum (skip)"], crate_attrs=CRATE_ATTRS))
    return out


def field_format_pairs():
    out = []
    dm = "#[derive(derive_more::Debug)]\npub struct S(#[debug(\"<{_0:x}>\")] pub Probe, pub Probe, #[debug(\"{}/{_1:?}\", _2.twin())] pub Probe);"
    sd = ("pub struct S(pub Probe, pub Probe, pub Probe);\nimpl fmt::Debug for S {\n    fn fmt(&self, f: &mut fmt::Formatter<'_>) -> fmt::Result {\n"
          "        f.debug_tuple(\"S\").field(&format_args!(\"<{:x}>\", self.0)).field(&self.1).field(&format_args!(\"{}/{:?}\", self.2.twin(), self.1)).finish()\n    }\n}")
    mk = lambda m: "%s::S(%s, %s, %s)" % (m, P % "i0", P % "i1", P % "i2")  # noqa
    out.append(Shape("c06_flat_field_format_tuple", module(dm, sd, pair_harness("same_as_std_debug", mk, 3)), H(), dm.replace("\n", " "),
                     exercises=["impl/src/fmt/debug.rs::Expansion::generate_body (field attributes)"], crate_attrs=CRATE_ATTRS))
    # a field-level attribute that is exactly one bare `{:?}` placeholder still *replaces the value by the formatted literal*: the field is
    # formatted inside format_args!, under default options, whatever the caller's spec (seed C06-field-debug-placeholder-passes-field-through)
    dm = ("#[derive(derive_more::Debug)]\npub struct B(#[debug(\"{_0:?}\")] pub Probe, #[debug(\"{:?}\", _0)] pub Probe, pub Probe);\n"
          "#[derive(derive_more::Debug)]\npub struct BN { #[debug(\"{a:?}\")] pub a: Probe, #[debug(\"{p:?}\", p = a)] pub b: Probe }")
    sd = ("pub struct B(pub Probe, pub Probe, pub Probe);\nimpl fmt::Debug for B {\n    fn fmt(&self, f: &mut fmt::Formatter<'_>) -> fmt::Result {\n"
          "        f.debug_tuple(\"B\").field(&format_args!(\"{:?}\", self.0)).field(&format_args!(\"{:?}\", self.0)).field(&self.2).finish()\n    }\n}\n"
          "pub struct BN { pub a: Probe, pub b: Probe }\nimpl fmt::Debug for BN {\n    fn fmt(&self, f: &mut fmt::Formatter<'_>) -> fmt::Result {\n"
          "        f.debug_struct(\"BN\").field(\"a\", &format_args!(\"{:?}\", self.a)).field(\"b\", &format_args!(\"{:?}\", self.a)).finish()\n    }\n}")
    mk = lambda m: "(%s::B(%s, %s, %s), %s::BN { a: %s, b: %s })" % (m, P % "i0", P % "i1", P % "i2", m, P % "i1", P % "i0")  # noqa
    out.append(Shape("c06_flat_field_format_bare_debug", module(dm, sd, pair_harness("same_as_std_debug", mk, 3)), H(), dm.replace("\n", " "),
                     exercises=["impl/src/fmt/debug.rs::Expansion::generate_body (field attributes)"], crate_attrs=CRATE_ATTRS))
    dm = "#[derive(derive_more::Debug)]\npub struct N { #[debug(\"{a}{{\")] pub a: Probe, pub b: Probe, #[debug(skip)] pub c: Probe, #[debug(\"{:>+5.1}\", self.b)] pub d: Probe }"
    sd = ("pub struct N { pub a: Probe, pub b: Probe, pub c: Probe, pub d: Probe }\nimpl fmt::Debug for N {\n    fn fmt(&self, f: &mut fmt::Formatter<'_>) -> fmt::Result {\n"
          "        f.debug_struct(\"N\").field(\"a\", &format_args!(\"{}{{\", self.a)).field(\"b\", &self.b).field(\"d\", &format_args!(\"{:>+5.1}\", self.b)).finish_non_exhaustive()\n    }\n}")
    mk = lambda m: "%s::N { a: %s, b: %s, c: %s, d: %s }" % (m, P % "i2", P % "i0", P % "i1", P % "i1")  # noqa
    out.append(Shape("c06_flat_field_format_named", module(dm, sd, pair_harness("same_as_std_debug", mk, 3)), H(), dm.replace("\n", " "),
                     exercises=["impl/src/fmt/debug.rs::Expansion::generate_body (field attributes)"], quick=False, crate_attrs=CRATE_ATTRS))
    return out


def variant_format_pairs(prefix="c06_flat"):
    """An enum in which SOME variants carry their own `#[debug("..")]`: the variants without attribute, declared before and after them, still print
    exactly as under std's derive (seed C02-debug-variant-fmt-carries-over reused the previous variant's format)."""
    dm = ("#[derive(derive_more::Debug)]\npub enum E { Plain, #[debug(\"custom<{_0:?}>\")] Custom(Probe), After, AfterTuple(Probe), "
          "#[debug(\"n={a}\")] OwnNamed { a: Probe }, AfterNamed { a: Probe, b: Probe } }")
    sd = ("pub enum E { Plain, Custom(Probe), After, AfterTuple(Probe), OwnNamed { a: Probe }, AfterNamed { a: Probe, b: Probe } }\n"
          "impl fmt::Debug for E {\n    fn fmt(&self, f: &mut fmt::Formatter<'_>) -> fmt::Result {\n        match self {\n"
          "            E::Plain => f.write_str(\"Plain\"),\n            E::Custom(_0) => write!(f, \"custom<{_0:?}>\"),\n"
          "            E::After => f.write_str(\"After\"),\n            E::AfterTuple(x) => f.debug_tuple(\"AfterTuple\").field(x).finish(),\n"
          "            E::OwnNamed { a } => write!(f, \"n={a}\"),\n"
          "            E::AfterNamed { a, b } => f.debug_struct(\"AfterNamed\").field(\"a\", a).field(\"b\", b).finish(),\n        }\n    }\n}")
    mk = lambda m: ("match i0 %% 6 { 0 => %s::E::Plain, 1 => %s::E::Custom(%s), 2 => %s::E::After, 3 => %s::E::AfterTuple(%s), 4 => %s::E::OwnNamed { a: %s }, "  # noqa
                    "_ => %s::E::AfterNamed { a: %s, b: %s } }" % (m, m, P % "i1", m, m, P % "i2", m, P % "i1", m, P % "i1", P % "i2"))
    cov = "        kani::cover!(i0 % 6 == 3, \"reach AfterTuple\");\n        kani::cover!(i0 % 6 == 5, \"reach AfterNamed\");\n"
    return [Shape("%s_variant_formats_mixed" % prefix, module(dm, sd, pair_harness("same_as_std_debug", mk, 3, cov)), H(2), dm.replace("\n", " "),
                  exercises=["impl/src/fmt/debug.rs::expand_enum (per-variant attributes)"], crate_attrs=CRATE_ATTRS)]


def shapes(tier):
    TIER[0] = tier
    out = plain_pairs() + skip_pairs() + field_format_pairs() + variant_format_pairs()
    for s in out:
        s.source = s.source.replace("use core::fmt::{self, FormattingOptions, Write as _};\n\n",
                                    "use core::fmt::{self, FormattingOptions, Write as _};\npub static ANCHOR_PROBE: Probe = Probe { id: 5 };\n\n", 1)
    if tier == "quick":
        out = [s for s in out if s.quick]
    return out


DESCRIPTION = {
    "grid": "identical definitions under derive_more::Debug and std's Debug: unit, empty tuple / braces, tuple and named structs with 1-3 "
            "fields, an enum mixing all variant kinds, generic and nested types, raw-identifier type / variant / field names; every non-empty "
            "subset of skipped fields for 1-3 fields (tuple and named) and inside enum variants against std's builders + "
            "finish_non_exhaustive(); field-level #[debug(\"...\", args)] against builders given &format_args!(...)",
    "symbolic": "width and precision values (u16 each), probe ids, the variant; flags word from 6 concrete combinations",
    "oracle": "std's #[derive(Debug)] / std's DebugTuple / DebugStruct builders",
    "not_covered": ["`{:#?}` (pretty) mode: not decidable by CBMC within reach (PadAdapter + memchr on every write_str; measured 12.7 GB "
                    "and no verdict after 13 min for one field) - see DESIGN.md for the status of the engine-L half",
                    "field types whose Debug output is not a function of (value, options)"],
}
ASSUMPTIONS = ["a Formatter is (options, sink): equal probe traces and equal sink bytes mean equal output",
               "the flags word (fill, alignment, sign, `0`, hex-debug, presence of width / precision) is one of 6 concrete combinations per "
               "harness, `#` off; width and precision values are symbolic u16"]


# ------------------------------------------------------------------------------------------------------------------
# pretty (`{:#?}`) half: engine L (llsym) on vf/llsym/rust/probe_dbg.rs

PRETTY_SHAPES = ["T1(Nl)", "T2(Nl, Nl)", "N2 { a, b }", "Outer(T1, Nl)", "OuterN { t: T2, n: N2 }", "E::V(Nl)", "E::W { x }", "E::X(Nl, Nl)", "E::U",
                 "Skip(Nl, #[debug(skip)] Nl)", "SkipAll(#[debug(skip)] Nl)", "FieldFmt(#[debug(\"<{_0:?}>\")] Nl, Nl)", "Unit", "Empty()"]
PRETTY_FMTS = ["{:#?}", "{:#x?}", "{:#w$?}", "{:#.p$?}", "{:*<+#w$.p$X?}", "{:?}", "{:#06?}"]
# shapes that go through derive_more's own DebugTuple (src/fmt.rs) somewhere, and format selectors that carry options besides `#`
TUPLE_SHAPES = {0, 1, 3, 4, 5, 7, 9, 11}
OPTION_FMTS = {2, 3, 4, 6}
PRETTY_L = {"quick": 4, "thorough": 8}


def extra_pass(tier, kf):
    """Returns dict(violations=[(key, path, text)], known=[lines], inconclusive=[...], coverage={...})."""
    import json
    import multiprocessing
    import os
    import time
    import z3
    from .. import common
    from ..llsym import build, driver, native
    from ..llsym import engine as E
    out = {"violations": [], "known": [], "inconclusive": [], "coverage": {}}
    t0 = time.time()
    scratch = common.scratch_dir("C06-pretty")
    try:
        b = build.build_dbg_wrapper(scratch)
    except RuntimeError as e:
        out["inconclusive"].append("pretty-half wrapper does not build: " + str(e)[-800:])
        return out
    mod = E.Module(b["ll"])
    L = PRETTY_L[tier]
    n = 5 + L
    outdir = os.path.join(scratch, "paths")
    os.makedirs(outdir)
    ex = driver.ParallelExec(mod, outdir, multiprocessing.Semaphore(common.NCPU - 1), max_steps=3000000)
    bs = [z3.BitVec("r%d" % i, 8) for i in range(n)]

    def setup(ex, st):
        buf = st.alloc(n, "input")
        for i in range(n):
            buf.data[i] = bs[i]
        dg = st.alloc(64, "digest")
        fr = st.frames[0]
        names = [p[1] for p in fr.fn.params]
        fr.regs[names[0]] = buf.base
        fr.regs[names[1]] = n
        fr.regs[names[2]] = dg.base
        cs = [z3.ULT(bs[0], len(PRETTY_SHAPES)), z3.ULT(bs[1], len(PRETTY_FMTS)), z3.ULE(bs[2], L), z3.ULE(bs[3], 8), z3.ULE(bs[4], 8)]
        for x in bs[5:]:
            cs.append(z3.Or(x == ord("a"), x == ord("b"), x == 10))
        st.pc.append(z3.And(*cs))

    def describe(kind, detail, st, m):
        inp = [m.eval(x, model_completion=True).as_long() for x in bs] if m is not None else None
        rec = {"kind": kind, "input": inp}
        if kind == "ret":
            rv = detail
            if E.is_sym(rv):
                rv = m.eval(rv, model_completion=True).as_long()
            rec["code"] = rv
        else:
            rec["detail"] = str(detail)[:200]
        return rec
    ex.describe = describe
    ok = ex.run_parallel("@probe", setup)
    recs, stats, solver_s = driver.collect(outdir)
    if not ok:
        out["inconclusive"].append("a worker of the pretty-half exploration died")
    rets = [r for r in recs if r["kind"] == "ret"]
    for r in recs:
        if r["kind"] != "ret":
            out["inconclusive"].append("pretty-half path ended %s: %s" % (r["kind"], r.get("detail")))
            break
    if any(r["code"] == 3 for r in rets):
        out["inconclusive"].append("HARNESS: pretty-half sink too small")
    # native cross-check of every path (return code must agree)
    nat = native.run_native(b["so"], [bytes(r["input"]) for r in rets])
    mism = sum(1 for r, x in zip(rets, nat) if x.get("code") != r["code"])
    if mism:
        out["inconclusive"].append("llsym and the native build disagree on %d of %d pretty-half paths" % (mism, len(rets)))
    groups = {}
    for r in rets:
        if r["code"] in (1, 2):
            shape, sel = r["input"][0], r["input"][1]
            if r["code"] == 2 and shape in TUPLE_SHAPES and sel in OPTION_FMTS:
                key = "pretty/2/tuple-drops-caller-options"
            else:
                key = "pretty/%d/%s/%s" % (r["code"], PRETTY_SHAPES[shape].split("(")[0].split(" ")[0], PRETTY_FMTS[sel])
            groups.setdefault(key, []).append(r)
    replay_dir = os.path.join(common.REPLAY_DIR, "C06")
    os.makedirs(replay_dir, exist_ok=True)
    for key, rs in sorted(groups.items()):
        text = kf.match("C06", key)
        if text is not None:
            out["known"].append("KNOWN-FINDING: property=C06 key=%s %s (%d paths)" % (key, text, len(rs)))
            continue
        r = rs[0]
        path = os.path.join(replay_dir, "pretty_%s.json" % "".join(c if c.isalnum() else "_" for c in key)[:60])
        json.dump({"property": "C06", "class": key, "record": r["input"], "shape": PRETTY_SHAPES[r["input"][0]], "format": PRETTY_FMTS[r["input"][1]],
                   "split": r["input"][2], "w": r["input"][3], "p": r["input"][4], "field_content": bytes(r["input"][5:]).decode(),
                   "meaning": "output bytes differ from std's" if r["code"] == 1 else "same bytes, but a field saw different formatter options than under std's Debug",
                   "paths_in_class": len(rs)}, open(path, "w"), indent=1)
        out["violations"].append((key, path, "pretty mode: %s %s differs from std (%d paths)" % (PRETTY_SHAPES[r["input"][0]], PRETTY_FMTS[r["input"][1]], len(rs))))
    out["coverage"] = {
        "pretty_half": {
            "engine": "llsym over the LLVM IR of vf/llsym/rust/probe_dbg.rs (derive_more::Debug expansions + src/fmt.rs DebugTuple/Padded vs std's derive and builders)",
            "shapes": PRETTY_SHAPES, "formats": PRETTY_FMTS,
            "symbolic": "shape, format selector, field content (%d bytes over {a, b, \\n}, split between two fields), chunk split point (two `write_str` chunks, or - split = len + 2 - one `write_char` per character), width and precision (0..=8)" % L,
            "paths": stats.get("paths", 0), "solver_queries": stats.get("queries", 0), "solver_s": round(solver_s, 1), "instructions": stats.get("instrs", 0),
            "paths_equal": len([r for r in rets if r["code"] == 0]), "paths_differ": len([r for r in rets if r["code"] in (1, 2)]),
            "native_cross_check": {"paths": len(rets), "mismatches": mism}, "wall_s": round(time.time() - t0, 1),
            "samples": [{"record": r["input"], "shape": PRETTY_SHAPES[r["input"][0]], "format": PRETTY_FMTS[r["input"][1]], "verdict": r["code"]} for r in rets[:3]],
        }
    }
    return out


def replay_json(path):
    """./check C06 --replay <pretty_*.json>: rebuild the wrapper from the working tree and run the record natively"""
    import json
    from .. import common
    from ..llsym import build, native
    j = json.load(open(path))
    b = build.build_dbg_wrapper(common.scratch_dir("C06-replay"))
    out = native.run_native(b["so"], [bytes(j["record"])])[0]
    print("%s with %s -> native %s" % (j["shape"], j["format"], out))
    if out.get("abort") or out.get("code") in (1, 2):
        print("VIOLATION property=C06 replay=%s" % path)
        return common.EXIT_VIOLATION
    return common.EXIT_OK
