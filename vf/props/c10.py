"""C10 - derived operators act field-wise with operand order preserved.

Operand types V, W (payload u32) implement every operator as a *different*, non-commutative function that is
injective in each argument (`mix(op, l, r) = (3*l + r) ^ op*C`), so a swapped operand, a wrong field, a wrong
operator or a dropped field changes the result for some value - which the solver is free to pick."""
from ..shapes import Shape, Harness

ADD_LIKE = [("Add", "add", "+"), ("Sub", "sub", "-"), ("BitAnd", "bitand", "&"), ("BitOr", "bitor", "|"),
            ("BitXor", "bitxor", "^")]
MUL_LIKE = [("Mul", "mul", "*"), ("Div", "div", "/"), ("Rem", "rem", "%"), ("Shr", "shr", ">>"), ("Shl", "shl", "<<")]
ALL_BIN = ADD_LIKE + MUL_LIKE


def snake(s):
    out = ""
    for i, c in enumerate(s):
        if c.isupper() and i:
            out += "_"
        out += c.lower()
    return out


SUPPORT = """// Operand types for the C10 harnesses.
use core::ops::*;

#[derive(Clone, Copy, PartialEq, Eq, Debug)]
pub struct V(pub u32);
#[derive(Clone, Copy, PartialEq, Eq, Debug)]
pub struct W(pub u32);
/// scalar right-hand side of the `Mul`-like derives
#[derive(Clone, Copy, PartialEq, Eq, Debug)]
pub struct K(pub u32);

#[inline(always)]
pub const fn mix(op: u32, l: u32, r: u32) -> u32 {
    (l.wrapping_mul(3).wrapping_add(r)) ^ op.wrapping_mul(0x9E37_79B1)
}

macro_rules! binop {
    ($Tr:ident, $m:ident, $TrA:ident, $ma:ident, $code:expr) => {
        impl $Tr for V { type Output = V; #[inline] fn $m(self, r: V) -> V { V(mix($code, self.0, r.0)) } }
        impl $Tr for W { type Output = W; #[inline] fn $m(self, r: W) -> W { W(mix($code + 100, self.0, r.0)) } }
        impl $Tr<K> for V { type Output = V; #[inline] fn $m(self, r: K) -> V { V(mix($code + 200, self.0, r.0)) } }
        impl $Tr<K> for W { type Output = W; #[inline] fn $m(self, r: K) -> W { W(mix($code + 300, self.0, r.0)) } }
        impl $TrA for V { #[inline] fn $ma(&mut self, r: V) { self.0 = mix($code, self.0, r.0) } }
        impl $TrA for W { #[inline] fn $ma(&mut self, r: W) { self.0 = mix($code + 100, self.0, r.0) } }
        impl $TrA<K> for V { #[inline] fn $ma(&mut self, r: K) { self.0 = mix($code + 200, self.0, r.0) } }
        impl $TrA<K> for W { #[inline] fn $ma(&mut self, r: K) { self.0 = mix($code + 300, self.0, r.0) } }
    };
}
binop!(Add, add, AddAssign, add_assign, 1);
binop!(Sub, sub, SubAssign, sub_assign, 2);
binop!(BitAnd, bitand, BitAndAssign, bitand_assign, 3);
binop!(BitOr, bitor, BitOrAssign, bitor_assign, 4);
binop!(BitXor, bitxor, BitXorAssign, bitxor_assign, 5);
binop!(Mul, mul, MulAssign, mul_assign, 6);
binop!(Div, div, DivAssign, div_assign, 7);
binop!(Rem, rem, RemAssign, rem_assign, 8);
binop!(Shr, shr, ShrAssign, shr_assign, 9);
binop!(Shl, shl, ShlAssign, shl_assign, 10);

impl Neg for V { type Output = V; #[inline] fn neg(self) -> V { V(mix(20, self.0, 1)) } }
impl Neg for W { type Output = W; #[inline] fn neg(self) -> W { W(mix(21, self.0, 2)) } }
impl Not for V { type Output = V; #[inline] fn not(self) -> V { V(mix(22, self.0, 3)) } }
impl Not for W { type Output = W; #[inline] fn not(self) -> W { W(mix(23, self.0, 4)) } }

// The field types' own Sum / Product give the empty sum / product for an empty iterator and a *decoy* otherwise: the property defines the derived
// Sum / Product as the fold with the struct's Add / Mul from the field-wise empty value, so the fields' Sum / Product may only ever be asked for
// the empty case (a derive that delegates to them for a non-empty iterator is visible - seed C10-newtype-sum-delegates-to-field-sum).
impl core::iter::Sum for V { fn sum<I: Iterator<Item = V>>(mut i: I) -> V { if i.next().is_none() { V(0x1111) } else { V(0xdead_0001) } } }
impl core::iter::Sum for W { fn sum<I: Iterator<Item = W>>(mut i: I) -> W { if i.next().is_none() { W(0x2222) } else { W(0xdead_0002) } } }
impl core::iter::Product for V { fn product<I: Iterator<Item = V>>(mut i: I) -> V { if i.next().is_none() { V(0x3333) } else { V(0xdead_0003) } } }
impl core::iter::Product for W { fn product<I: Iterator<Item = W>>(mut i: I) -> W { if i.next().is_none() { W(0x4444) } else { W(0xdead_0004) } } }
"""

FIELD_TYPES = {1: ["V"], 2: ["V", "W"], 3: ["V", "W", "V"]}
NAMES = ["a", "b", "c"]


class St:
    """a struct shape: tuple/named with n fields"""

    def __init__(self, named, n):
        self.named, self.n = named, n
        self.tys = FIELD_TYPES[n]
        self.tag = ("named" if named else "tuple") + str(n)

    def decl(self, derives, attrs=""):
        d = "#[derive(Clone, Copy, PartialEq, Debug, %s)]\n%s" % (", ".join("derive_more::" + x for x in derives), attrs)
        if self.named:
            return d + "pub struct S { %s }" % ", ".join("pub %s: %s" % (NAMES[i], t) for i, t in enumerate(self.tys))
        return d + "pub struct S(%s);" % ", ".join("pub " + t for t in self.tys)

    def acc(self, i):
        return NAMES[i] if self.named else str(i)

    def any(self):
        if self.named:
            return "S { %s }" % ", ".join("%s: %s(kani::any())" % (NAMES[i], t) for i, t in enumerate(self.tys))
        return "S(%s)" % ", ".join("%s(kani::any())" % t for t in self.tys)

    def build(self, exprs):
        if self.named:
            return "S { %s }" % ", ".join("%s: %s" % (NAMES[i], e) for i, e in enumerate(exprs))
        return "S(%s)" % ", ".join(exprs)


HEAD = "#![allow(dead_code, unused, clippy::all)]\nuse crate::support::*;\n\n"


def module(decls, harness_src):
    return HEAD + decls + "\n\n#[cfg(kani)]\nmod proofs {\n    use super::*;\n" + harness_src + "}\n"


def struct_binops(st, ops, forward_attr, group):
    """Add-like (or forwarded Mul-like) on a struct: r.i == a.i op b.i"""
    derives = [t for t, _, _ in ops]
    attrs = "".join("#[%s(forward)]\n" % snake(t) for t, _, _ in ops) if forward_attr else ""
    hs, src = [], ""
    for t, m, sym in ops:
        fn = "fieldwise_" + m
        asserts = "\n".join("        assert!(r.%s == a.%s %s b.%s, \"field %s is not lhs.%s %s rhs.%s\");" % (
            st.acc(i), st.acc(i), sym, st.acc(i), st.acc(i), st.acc(i), sym, st.acc(i)) for i in range(st.n))
        src += "    #[kani::proof]\n    fn %s() {\n        let a = %s;\n        let b = %s;\n        let r = a %s b;\n%s\n        kani::cover!(true, \"reach end\");\n    }\n" % (
            fn, st.any(), st.any(), sym, asserts)
        hs.append(Harness(fn, "both operands: every field payload a free u32", covers=1,
                          asserts="(a %s b).i == a.i %s b.i for every field i" % (sym, sym)))
    name = "c10_%s_%s" % (group, st.tag)
    decl = st.decl(derives, attrs)
    return Shape(name, module(decl, src), hs, decl.replace("\n", " "),
                 exercises=["impl/src/add_like.rs::expand", "impl/src/add_helpers.rs"] +
                           (["impl/src/mul_like.rs::expand (forward)"] if forward_attr else []))


def struct_scalar(st, explicit_not_forward=False):
    """Mul-like without forward: r.i == a.i op k.  `explicit_not_forward`: the same with the accepted spelling `#[mul(not(forward))]` of "without
    forward" (seed C10-not-forward-recorded-as-forward)."""
    derives = [t for t, _, _ in MUL_LIKE]
    hs, src = [], ""
    for t, m, sym in MUL_LIKE:
        fn = "scalar_" + m
        asserts = "\n".join("        assert!(r.%s == a.%s %s k, \"field %s is not field %s rhs\");" % (
            st.acc(i), st.acc(i), sym, st.acc(i), sym) for i in range(st.n))
        src += "    #[kani::proof]\n    fn %s() {\n        let a = %s;\n        let k = K(kani::any());\n        let r = a %s k;\n%s\n        kani::cover!(true, \"reach end\");\n    }\n" % (
            fn, st.any(), sym, asserts)
        hs.append(Harness(fn, "struct fields and the scalar: free u32 each", covers=1,
                          asserts="(a %s k).i == a.i %s k for every field i" % (sym, sym)))
    decl = st.decl(derives, "".join("#[%s(not(forward))]\n" % snake(t) for t, _, _ in MUL_LIKE) if explicit_not_forward else "")
    return Shape("c10_mulscalar%s_%s" % ("_not_forward" if explicit_not_forward else "", st.tag), module(decl, src), hs, decl.replace("\n", " "),
                 exercises=["impl/src/mul_like.rs::expand", "impl/src/mul_helpers.rs::generics_and_exprs"])


def struct_assign(st, ops, forward, group):
    """op= leaves a equal to a op b (both derived on the same struct)"""
    derives = [t for t, _, _ in ops] + [t + "Assign" for t, _, _ in ops]
    attrs = ""
    if forward:
        attrs = "".join("#[%s(forward)]\n#[%s_assign(forward)]\n" % (snake(t), snake(t)) for t, _, _ in ops)
    hs, src = [], ""
    for t, m, sym in ops:
        fn = "assign_" + m
        direct = "\n".join("        assert!(x.%s == a.%s %s b.%s);" % (st.acc(i), st.acc(i), sym, st.acc(i)) for i in range(st.n))
        src += ("    #[kani::proof]\n    fn %s() {\n        let a = %s;\n        let b = %s;\n        let mut x = a;\n"
                "        x %s= b;\n        assert!(x == a %s b, \"`a %s= b` differs from `a %s b`\");\n%s\n        kani::cover!(true, \"reach end\");\n    }\n") % (
            fn, st.any(), st.any(), sym, sym, sym, sym, direct)
        hs.append(Harness(fn, "both operands: every field payload a free u32", covers=1,
                          asserts="after `x = a; x %s= b`: x == a %s b and field-wise" % (sym, sym)))
    decl = st.decl(derives, attrs)
    return Shape("c10_%s_%s" % (group, st.tag), module(decl, src), hs, decl.replace("\n", " "),
                 exercises=["impl/src/add_assign_like.rs::expand"] + (["impl/src/mul_assign_like.rs::expand (forward)"] if forward else []))


def struct_scalar_assign(st, explicit_not_forward=False):
    derives = [t for t, _, _ in MUL_LIKE] + [t + "Assign" for t, _, _ in MUL_LIKE]
    hs, src = [], ""
    for t, m, sym in MUL_LIKE:
        fn = "scalar_assign_" + m
        direct = "\n".join("        assert!(x.%s == a.%s %s k);" % (st.acc(i), st.acc(i), sym) for i in range(st.n))
        src += ("    #[kani::proof]\n    fn %s() {\n        let a = %s;\n        let k = K(kani::any());\n        let mut x = a;\n"
                "        x %s= k;\n        assert!(x == a %s k, \"`a %s= k` differs from `a %s k`\");\n%s\n        kani::cover!(true, \"reach end\");\n    }\n") % (
            fn, st.any(), sym, sym, sym, sym, direct)
        hs.append(Harness(fn, "struct fields and the scalar: free u32 each", covers=1,
                          asserts="after `x = a; x %s= k`: x == a %s k and field-wise" % (sym, sym)))
    decl = st.decl(derives, "".join("#[%s(not(forward))]\n#[%s_assign(not(forward))]\n" % (snake(t), snake(t)) for t, _, _ in MUL_LIKE) if explicit_not_forward else "")
    return Shape("c10_mulscalar_assign%s_%s" % ("_not_forward" if explicit_not_forward else "", st.tag), module(decl, src), hs, decl.replace("\n", " "),
                 exercises=["impl/src/mul_assign_like.rs::expand", "impl/src/mul_helpers.rs::generics_and_exprs"])


def struct_unary(st):
    hs, src = [], ""
    for t, m, sym in (("Neg", "neg", "-"), ("Not", "not", "!")):
        fn = "maps_every_field_" + m
        asserts = "\n".join("        assert!(r.%s == %sa.%s);" % (st.acc(i), sym, st.acc(i)) for i in range(st.n))
        src += "    #[kani::proof]\n    fn %s() {\n        let a = %s;\n        let r = %sa;\n%s\n        kani::cover!(true, \"reach end\");\n    }\n" % (
            fn, st.any(), sym, asserts)
        hs.append(Harness(fn, "every field payload a free u32", covers=1, asserts="(%sa).i == %s(a.i)" % (sym, sym)))
    decl = st.decl(["Neg", "Not"])
    return Shape("c10_unary_%s" % st.tag, module(decl, src), hs, decl.replace("\n", " "),
                 exercises=["impl/src/not_like.rs::expand"])


def struct_sum(st):
    hs, src = [], ""
    for t, m, op, sym in (("Sum", "sum", "Add", "+"), ("Product", "product", "Mul", "*")):
        fn = "fold_from_fieldwise_empty_" + m
        ident = st.build(["<%s as core::iter::%s>::%s(core::iter::empty::<%s>())" % (ty, t, m, ty) for ty in st.tys])
        step = st.build(["acc.%s %s xs[i].%s" % (st.acc(i), sym, st.acc(i)) for i in range(st.n)])
        src += ("    #[kani::proof]\n    #[kani::unwind(5)]\n    fn %s() {\n        let xs = [%s, %s, %s];\n        let len: usize = kani::any();\n"
                "        kani::assume(len <= 3);\n        let got: S = xs[..len].iter().copied().%s();\n        let mut acc = %s;\n"
                "        let mut i = 0;\n        while i < len {\n            acc = %s;\n            i += 1;\n        }\n"
                "        assert!(got == acc, \"%s differs from folding with %s from the field-wise empty %s\");\n"
                "        kani::cover!(len == 0, \"empty iterator\");\n        kani::cover!(len == 3, \"three elements\");\n    }\n") % (
            fn, st.any(), st.any(), st.any(), m, ident, step, m, op, m)
        hs.append(Harness(fn, "iterator length 0..=3 symbolic, every element field a free u32", covers=2, unwind=5,
                          asserts="iter.%s() == fold(field-wise empty %s, field-wise %s)" % (m, m, sym)))
    # Sum needs Add on the struct, Product needs Mul<Self> (forward)
    decl = st.decl(["Sum", "Product", "Add", "Mul"], "#[mul(forward)]\n")
    return Shape("c10_sum_%s" % st.tag, module(decl, src), hs, decl.replace("\n", " "),
                 exercises=["impl/src/sum_like.rs::expand"])


def sum_with_own_operator_shape():
    """Sum / Product are *defined* as the fold with the type's own Add / Mul: with a hand-written, not field-wise operator on the struct the derived
    Sum / Product must follow it (seed C10-sum-folds-field-wise-not-via-add folded field by field instead)."""
    decl = ("#[derive(Clone, Copy, PartialEq, Debug, derive_more::Sum, derive_more::Product)]\npub struct S(pub V, pub W);\n"
            "impl core::ops::Add for S { type Output = S; fn add(self, r: S) -> S { S(self.0 + r.0, W(mix(900, self.1 .0, r.0 .0))) } }\n"
            "impl core::ops::Mul for S { type Output = S; fn mul(self, r: S) -> S { S(V(mix(901, r.0 .0, self.1 .0)), self.1 * r.1) } }")
    src = ""
    hs = []
    for t, m, sym in (("Sum", "sum", "+"), ("Product", "product", "*")):
        src += ("    #[kani::proof]\n    #[kani::unwind(5)]\n    fn own_operator_%(m)s() {\n        let xs = [S(V(kani::any()), W(kani::any())), S(V(kani::any()), W(kani::any())), S(V(kani::any()), W(kani::any()))];\n"
                "        let len: usize = kani::any();\n        kani::assume(len <= 3);\n        let got: S = xs[..len].iter().copied().%(m)s();\n"
                "        let mut acc = S(<V as core::iter::%(t)s>::%(m)s(core::iter::empty::<V>()), <W as core::iter::%(t)s>::%(m)s(core::iter::empty::<W>()));\n"
                "        let mut i = 0;\n        while i < len {\n            acc = acc %(sym)s xs[i];\n            i += 1;\n        }\n"
                "        assert!(got == acc, \"%(m)s differs from folding with the struct's own operator\");\n        kani::cover!(len == 3, \"three elements\");\n    }\n") % dict(m=m, t=t, sym=sym)
        hs.append(Harness("own_operator_" + m, "iterator length 0..=3 symbolic, every element field a free u32", covers=1, unwind=5,
                          asserts="iter.%s() == fold(field-wise empty value, the struct's hand-written `%s`)" % (m, sym)))
    return Shape("c10_sum_with_own_operator", module(decl, src), hs, decl.replace("\n", " "), exercises=["impl/src/sum_like.rs::expand"])


# -------------------------------------------------------------------------------------------------- enums

ENUMS = {
    # name: [(variant, kind, field types)]
    "mixed": [("T1", "tuple", ["V"]), ("T2", "tuple", ["V", "W"]), ("N", "named", ["W", "V"]), ("U", "unit", []),
              ("U2", "unit", [])],
    "nounit": [("T2", "tuple", ["V", "W"]), ("N", "named", ["V", "V"]), ("T1", "tuple", ["W"])],
    "single": [("T", "tuple", ["V", "W", "V"])],
    "single_unit": [("U", "unit", [])],
    "twin_payloads": [("A", "tuple", ["V", "V"]), ("B", "tuple", ["V", "V"]), ("U", "unit", [])],
    # explicitly empty tuple / brace variants are not unit variants: no unit error, and (for Neg / Not) no Result when there is no unit variant
    "empties_nounit": [("T", "tuple", ["V", "W"]), ("E0", "tuple", []), ("N0", "named", [])],
    "empties_and_unit": [("E0", "tuple", []), ("T", "tuple", ["V"]), ("U", "unit", [])],
}


def enum_decl(variants, derives, attrs=""):
    vs = []
    for n, k, tys in variants:
        if k == "tuple":
            vs.append("    %s(%s)," % (n, ", ".join(tys)))
        elif k == "named":
            vs.append("    %s { %s }," % (n, ", ".join("%s: %s" % (NAMES[i], t) for i, t in enumerate(tys))))
        else:
            vs.append("    %s," % n)
    return "#[derive(Clone, Copy, PartialEq, Debug, %s)]\n%spub enum E {\n%s\n}" % (
        ", ".join("derive_more::" + d for d in derives), attrs, "\n".join(vs))


def enum_any(variants):
    arms = []
    for i, (n, k, tys) in enumerate(variants):
        pat = str(i) if i < len(variants) - 1 else "_"
        if k == "tuple":
            arms.append("            %s => E::%s(%s)," % (pat, n, ", ".join("%s(kani::any())" % t for t in tys)))
        elif k == "named":
            arms.append("            %s => E::%s { %s }," % (pat, n, ", ".join("%s: %s(kani::any())" % (NAMES[j], t) for j, t in enumerate(tys))))
        else:
            arms.append("            %s => E::%s," % (pat, n))
    return "    fn any_e() -> E {\n        match kani::any::<u8>() %% %d {\n%s\n        }\n    }\n" % (len(variants), "\n".join(arms))


def pat(n, k, tys, pre):
    if k == "tuple":
        return "E::%s(%s)" % (n, ", ".join("%s%d" % (pre, j) for j in range(len(tys))))
    if k == "named":
        return "E::%s { %s }" % (n, ", ".join("%s: %s%d" % (NAMES[j], pre, j) for j in range(len(tys))))
    return "E::%s" % n


def enum_binops(ename, variants, ops, forward, group):
    derives = [t for t, _, _ in ops]
    attrs = "".join("#[%s(forward)]\n" % snake(t) for t, _, _ in ops) if forward else ""
    hs, src = [], enum_any(variants)
    for t, m, sym in ops:
        fn = "enum_" + m
        arms, covers = [], []
        for n, k, tys in variants:
            if k == "unit":
                arms.append("            (E::%s, E::%s) => assert!(matches!(r, Err(derive_more::BinaryError::Unit(_))), \"unit variants must yield the unit error\")," % (n, n))
            else:
                conds = " && ".join("x%d == l%d %s r%d" % (j, j, sym, j) for j in range(len(tys))) or "true"
                arms.append("            (%s, %s) => assert!(matches!(r, Ok(%s) if %s), \"same variant: Ok(field-wise)\")," % (
                    pat(n, k, tys, "l"), pat(n, k, tys, "r"), pat(n, k, tys, "x"), conds))
        if len(variants) > 1:
            arms.append("            _ => assert!(matches!(r, Err(derive_more::BinaryError::Mismatch(_))), \"different variants must yield the mismatch error\"),")
        ncov = 1
        cov = "        kani::cover!(r.is_ok(), \"reach Ok\");\n" if any(k != "unit" for _, k, _ in variants) else ""
        ncov = 1 if cov else 0
        if any(k == "unit" for _, k, _ in variants):
            cov += "        kani::cover!(matches!(r, Err(derive_more::BinaryError::Unit(_))), \"reach unit error\");\n"
            ncov += 1
        if len(variants) > 1:
            cov += "        kani::cover!(matches!(r, Err(derive_more::BinaryError::Mismatch(_))), \"reach mismatch error\");\n"
            ncov += 1
        src += ("    #[kani::proof]\n    fn %s() {\n        let a = any_e();\n        let b = any_e();\n        let r = a %s b;\n%s"
                "        match (a, b) {\n%s\n        }\n    }\n") % (fn, sym, cov, "\n".join(arms))
        hs.append(Harness(fn, "both operands: variant symbolic, every payload a free u32", covers=ncov,
                          asserts="same variant: Ok(field-wise); unit/unit: BinaryError::Unit; different variants: BinaryError::Mismatch"))
    decl = enum_decl(variants, derives, attrs)
    return Shape("c10_%s_enum_%s" % (group, ename), module(decl, src), hs, decl.replace("\n", " "),
                 exercises=["impl/src/add_like.rs::enum_content", "src/add.rs::BinaryError", "src/ops.rs::UnitError"])


def enum_unary(ename, variants):
    has_unit = any(k == "unit" for _, k, _ in variants)
    hs, src = [], enum_any(variants)
    for t, m, sym in (("Neg", "neg", "-"), ("Not", "not", "!")):
        fn = "enum_" + m
        arms = []
        for n, k, tys in variants:
            if k == "unit":
                arms.append("            E::%s => assert!(matches!(r, Err(_)), \"unit variant must yield the unit error\")," % n)
            else:
                conds = " && ".join("x%d == %sl%d" % (j, sym, j) for j in range(len(tys))) or "true"
                okpat = ("Ok(%s)" if has_unit else "%s") % pat(n, k, tys, "x")
                arms.append("            %s => assert!(matches!(r, %s if %s), \"every field mapped\")," % (pat(n, k, tys, "l"), okpat, conds))
        src += "    #[kani::proof]\n    fn %s() {\n        let a = any_e();\n        let r = %sa;\n        match a {\n%s\n        }\n        kani::cover!(true, \"reach end\");\n    }\n" % (
            fn, sym, "\n".join(arms))
        hs.append(Harness(fn, "variant symbolic, every payload a free u32", covers=1,
                          asserts="every field mapped inside the variant; unit variants yield UnitError (Result only if the enum has unit variants)"))
    decl = enum_decl(variants, ["Neg", "Not"])
    return Shape("c10_unary_enum_%s" % ename, module(decl, src), hs, decl.replace("\n", " "),
                 exercises=["impl/src/not_like.rs::enum_output_type_and_content"])


def shapes(tier):
    out = []
    sts = [St(named, n) for named in (False, True) for n in (1, 2, 3)]
    for st in sts:
        q = st.tag in ("tuple3", "named2", "tuple1")
        for sh in (struct_binops(st, ADD_LIKE, False, "addlike"), struct_binops(st, MUL_LIKE, True, "mulforward"),
                   struct_scalar(st), struct_assign(st, ADD_LIKE, False, "addassign"),
                   struct_assign(st, MUL_LIKE, True, "mulforward_assign"), struct_scalar_assign(st),
                   struct_unary(st), struct_sum(st)):
            sh.quick = q
            out.append(sh)
        if st.tag in ("tuple2", "named1"):
            out += [struct_scalar(st, True), struct_scalar_assign(st, True)]
    out.append(sum_with_own_operator_shape())
    for ename, variants in ENUMS.items():
        q = ename in ("mixed", "single")
        sh = enum_binops(ename, variants, ADD_LIKE, False, "addlike")
        sh.quick = q
        out.append(sh)
        # `#[mul(forward)]` is rejected on enums ("Attribute is not allowed here"): Mul-likes are struct-only
        if ename != "single_unit":
            sh = enum_unary(ename, variants)
            sh.quick = q
            out.append(sh)
    # the whole grid costs about a minute: both tiers run all of it
    for s in out:
        s.quick = True
        for h in s.harnesses:
            h.quick = True
    return out


DESCRIPTION = {
    "grid": "24 operator derives; structs: {tuple, named} x {1, 2, 3 fields of types V, W, V}; enums: 5 layouts (tuple/named/unit "
            "mixes, single variant, single unit variant, two variants with equal payload types); Mul-likes scalar and `forward`; "
            "*Assign against the derived non-assign operator; Sum/Product with 0..=3 elements",
    "symbolic": "every operand payload (free u32), both operands' variants, the scalar, the iterator length",
    "oracle": "the same operator applied directly to the fields (operand types implement each operator as a distinct "
              "non-commutative function injective in each argument)",
    "not_covered": ["generic operand types (bounds are C01/C04 territory)", "iterators longer than 3"],
}
ASSUMPTIONS = ["field types' `op=` agrees with their `op` (true of the harness operand types by construction)"]
