"""Engine L on the argument scanner (impl/src/parsing.rs + FmtArgument): shared by C16 and the scanner half of C18."""
import json
import os
import subprocess
import time

from .. import common
from ..common import log

PUNCTS = b",<>:|=-&.!"
GROUPS = b"([{"
K_IDENT, K_PUNCT, K_LIT, K_GROUP = 0, 1, 2, 3
# token trees per tier: C16 = oracle first, scanner on accepted lists (mode 1); C18 = scanner alone on every sequence (mode 2)
MODE = {"C16": 1, "C18": 2}
ENVN = lambda k, d: int(os.environ.get(k, d))
# validator runs per tier: (token trees, what, alphabet): `both` = stubs on every spacing + oracle on the C16 domain; `oracle` = oracle only (pruned to the domain)
VALIDATE = {"C16": {"quick": [("5", "both"), ("6", "oracle"), ("7", "oracle", "reduced")], "thorough": [("6", "both"), ("7", "oracle"), ("8", "oracle", "reduced")]},
            "C18": {"quick": [("5", "shim")], "thorough": [("6", "shim")]}}
ALPHABET_TEXT = ("identifier `a`; keyword `as`; literal `1`; groups `(a, a)` `[a, a]` `{ a }` (opaque); punctuation , < > : | = - & . ! "
                 "each with Alone and with Joint spacing (so every multi-character operator they form: :: || && == != <= >= << >> <<= >>= -= &= |= "
                 "-> => .. ... ..=); lexer sequences (Joint only directly before another punct) in which `:` occurs only as `::`")

FAIL_TEXT = {
    1: "Rust's grammar accepts the argument list, the scanner fails",
    2: "different number of arguments",
    3: "an argument has different boundaries",
    4: "`name =` alias detected differently than format_args! does",
    5: "plain-field-reference (single identifier) classification differs",
    6: "an argument is not handed on token for token, unchanged and in order",
}
FLAG_TEXT = {1: "binary-pipe", 2: "type-angle-comma", 4: "lt-comma-gt-pathsep"}


def render(tts):
    """tts: list of (kind, ch, joint, keyword)"""
    out = []
    for kind, ch, joint, kw in tts:
        if kind == K_IDENT:
            out.append("as " if kw else "a ")
        elif kind == K_LIT:
            out.append("1 ")
        elif kind == K_GROUP:
            out.append({ord("("): "(a, a) ", ord("["): "[a, a] "}.get(ch, "{ a } "))
        else:
            out.append(chr(ch) + ("" if joint else " "))
    return "".join(out).strip()


FULL = {"ident": True, "as": True, "lit": True, "groups": GROUPS, "puncts": PUNCTS, "text": ALPHABET_TEXT}
# the tokens the scanner itself distinguishes (identifier, `,`, `<`, `>`, `::`, `|`) plus what makes them ambiguous in Rust's grammar
# (`as` types, `=` aliases, a group as the catch-all operand): every other token is "some other token tree" to the scanner
REDUCED = {"ident": True, "as": True, "lit": False, "groups": b"(", "puncts": b",<>:|=",
           "text": "identifier `a`; keyword `as`; group `(a, a)`; punctuation , < > : | = each with Alone and with Joint spacing; lexer sequences, `:` only as `::`"}
# totality quantifies over token streams, not over source text: any spacing anywhere, and the `'` punct of a lifetime
ANY = dict(FULL, puncts=PUNCTS + b"'", text="identifier `a`; keyword `as`; literal `1`; groups `(a, a)` `[a, a]` `{ a }` (opaque); punctuation , < > : | = - & . ! ' "
                                             "each with Alone and with Joint spacing, in any order (no lexer constraint: token streams built by other macros)")


def valid_constraint(z3, bs, n, al=FULL, domain="lexer"):
    """bs: 4*n symbolic bytes (kind, ch, joint, keyword per token tree) -> the z3 constraint `lexer_seq` / `any_seq` of tokens.rs,
    restricted to the sub-alphabet `al`"""
    cs = []
    for i in range(n):
        k, c, j, w = bs[4 * i:4 * i + 4]
        is_p = k == K_PUNCT
        alts = []
        ids = ([z3.And(c == ord("a"), w == 0)] if al["ident"] else []) + ([z3.And(c == ord("s"), w == 1)] if al["as"] else [])
        if ids:
            alts.append(z3.And(k == K_IDENT, j == 0, z3.Or(*ids)))
        if al["lit"]:
            alts.append(z3.And(k == K_LIT, c == ord("1"), j == 0, w == 0))
        if al["groups"]:
            alts.append(z3.And(k == K_GROUP, z3.Or(*[c == g for g in al["groups"]]), j == 0, w == 0))
        alts.append(z3.And(is_p, z3.Or(*[c == q for q in al["puncts"]]), w == 0, z3.ULE(j, 1)))
        cs.append(z3.Or(*alts))
        if domain == "lexer":
            # Joint = written directly before another punctuation character
            if i + 1 < n:
                cs.append(z3.Implies(z3.And(is_p, j == 1), bs[4 * i + 4] == K_PUNCT))
            else:
                cs.append(z3.Not(z3.And(is_p, j == 1)))
    if domain == "lexer":
        # the C16 domain (scan_oracle.rs::c16_seq): `:` only as the two halves of `::`
        first_prev = False
        for i in range(n):
            k, c, j, w = bs[4 * i:4 * i + 4]
            colon = z3.And(k == K_PUNCT, c == ord(":"))
            first = z3.And(colon, z3.Not(first_prev)) if first_prev is not False else colon
            if i + 1 < n:
                cs.append(z3.Implies(first, z3.And(j == 1, bs[4 * i + 4] == K_PUNCT, bs[4 * i + 5] == ord(":"))))
            else:
                cs.append(z3.Not(first))
            first_prev = first
    return z3.And(*cs) if cs else None


def describe_tts(tts):
    """the validator's replay argument"""
    return " ".join("%d,%d,%d,%d" % tuple(t) for t in tts)


# Templates: the argument shapes the property names, as fixed token trees with HOLES (`?` = any one token tree of the full alphabet)
# and every spacing symbolic: they reach 8-14 token trees, which length-bounded passes cannot.  `a` identifier, `s` = `as`, `g` = `(a, a)`.
TEMPLATES = [
    # generic argument lists: `f::<A, B>()`, method turbofish, `<A as T<B, C>>::X`, `x as M<K, V>` (the last is a known finding)
    "a :: < ? , a > g", "a :: < ? ? , a > g", "a :: < a , ? > g", "a :: < a , ? ? > g", "a :: < ? , ? > g",
    "a . a :: < ? , a > g", "a . a :: < ? ? , a > g", "a . a :: < a , ? ? > g",
    # trailing commas inside generic argument lists (`f::<A, B,>()`: the comma is glued to the `>` when written without a space)
    "a :: < ? , > g", "a :: < a , ? , > g", "a :: < a :: < a , ? , > , a > g", "< a s a < a , ? , > > :: a",
    "< a s a < ? , a > > :: a", "< a s a < ? ? , a > > :: a", "< a s a < a , ? ? > > :: a", "< a < ? , a > > :: a", "< ? s a < a , a > > :: a",
    "a s a < ? , a >", "a s a :: < ? , a >", "a s a < a , ? >",
    # closure parameter lists do not split
    "| a , ? | ? a", "| a , ? | ? ? a", "| ? , a | a , a", "a , | a , ? | a",
    # ... wherever the closure stands in its argument (`&|a, b| ..`, `move |a, b| ..` is spelled with an identifier hole)
    "? | a , a | a", "? ? | a , a | a", "a , ? | a , a | a , a", "a = ? | a , a | a",
    # followed / preceded by other arguments, behind an alias
    "a :: < ? , a > g , a", "a , a :: < ? , a > g", "a = a :: < ? , a > g", "a = a , a :: < ? , a > g , ?",
    "a :: < ? , a > g , a = a", "< a s a < ? , a > > :: a , a",
    # comparisons / shifts using `<` `>`: these DO split
    "a < ? , a > ? a", "a < ? ? , a > a", "a < a , a :: < a , ? > g", "a < ? , a > :: a", "a < ? , ? > :: a , a",
    # the other expression forms the property lists, each next to another argument: macros, ranges, method calls, fields, casts,
    # references / negation, shifts and comparisons, assignments inside an alias, blocks (`b` = `{ a }`, `k` = `[a, a]`)
    "a ! g , ?", "a ! b ? ?", "a .. ? , a", "a ..= ? , a", ".. ? , a", "a . a g , ?", "a . 1 . ? , a", "a s a , ?", "a s & ? , a",
    "a = ? , a = ?", "a = a = ? , a", "a == ? , a", "& ? , - ? , ! ?", "a && ? , a", "a << ? , a", "a >> ? , a", "a <= ? , a", "a >= ? , a",
    "g g , ?", "b , ? , k", "a b , ?", "k . a , ?", "a -= ? , a", "a |= ? , a", "a != ? , a",
    # nesting
    "a :: < a :: < ? , a > , a > g", "a :: < < a s a < ? , a > > :: a , a > g", "a :: < a , a > :: a :: < ? , a > g",
]
TEMPLATES_THOROUGH = [
    "a :: < ? ? , ? > g", "a :: < ? ? , ? ? > g", "a :: < ? ? ? , a > g", "a . a :: < ? ? , ? > g", "a . ? :: < ? , a > g",
    "< a s a < ? ? , ? > > :: a", "< ? s a < ? , a > > :: a , a", "< ? ? s a < ? , a > > :: a", "< a s a < a , a > > :: a ? ? ?",
    "a :: < ? , a > g , ? ?", "? ? , a :: < ? , a > g", "a :: < ? , a > g ? ? ?", "? ? ? a :: < ? , a > g",
    "| a , ? | ? ? ? a", "| ? ? , a | ? a", "a ? | a , a | a , a", "a < ? ? , a > ? ? a", "a ? ? a , a ? ? a",
    "a :: < ? , ? > :: a :: < ? , a >", "a = ? ? ? , a = ? ? ?", "a s ? ? ? , a", "a s a < ? , a > , a s a < a , ? >",
]


# Stress sequences for totality ("in bounded time"): long repetitive argument lists on which a backtracking or re-scanning scanner needs
# super-linear work.  Fixed token trees and spacing (one path each); the per-path step budget and a native 10 s limit decide.
STRESS = [" ".join(["a <"] * 28), " ".join(["<"] * 40), " ".join(["a |"] * 28), " ".join(["|"] * 40), " ".join([":: <"] * 16),
          " ".join(["a :: < a ,"] * 8), " ".join(["< a s a <"] * 8), " ".join([">"] * 40), " ".join(["a ,"] * 24), " ".join(["a = a < a |"] * 8),
          " ".join(["a <"] * 14 + ["a >"] * 14), " ".join(["| a <"] * 14)]


def template_fixed(t, spacing=False):
    """-> (n, [(pos, kind, ch, keyword, joint-or-None)] for the fixed token trees; a multi-character word is that many puncts.
    spacing=True also fixes the spacing as written (glued inside a word, Alone at its end): used for the stress sequences, where a
    symbolic spacing on every `:` would make the *exploration* exponential"""
    fixed, pos = [], 0
    for w in t.split():
        if w == "?":
            pos += 1
        elif w == "a":
            fixed.append((pos, K_IDENT, ord("a"), 0, None)); pos += 1
        elif w == "s":
            fixed.append((pos, K_IDENT, ord("s"), 1, None)); pos += 1
        elif w == "1":
            fixed.append((pos, K_LIT, ord("1"), 0, None)); pos += 1
        elif w in ("g", "b", "k"):
            fixed.append((pos, K_GROUP, ord({"g": "(", "b": "{", "k": "["}[w]), 0, None)); pos += 1
        else:
            for i, ch in enumerate(w):
                fixed.append((pos, K_PUNCT, ord(ch), 0, (1 if i + 1 < len(w) else 0) if spacing else None)); pos += 1
    return pos, fixed


PASSES = {
    "C16": {"quick": [("full", FULL, 0, ENVN("VERIF_SCAN_QUICK_N", 4)), ("reduced", REDUCED, ENVN("VERIF_SCAN_QUICK_N", 4) + 1, ENVN("VERIF_SCAN_QUICK_R", 6))],
            "thorough": [("full", FULL, 0, ENVN("VERIF_SCAN_THOROUGH_N", 6)), ("reduced", REDUCED, ENVN("VERIF_SCAN_THOROUGH_N", 6) + 1, ENVN("VERIF_SCAN_THOROUGH_R", 8))]},
    "C18": {"quick": [("any", ANY, 0, ENVN("VERIF_SCAN18_QUICK_N", 5))],
            "thorough": [("any", ANY, 0, ENVN("VERIF_SCAN18_THOROUGH_N", 7))]},
}


def explore(tier, prop, passes=None, templates=None):
    import multiprocessing
    import z3
    from ..llsym import build, driver, native
    from ..llsym import engine as E
    t0 = time.time()
    scratch = common.scratch_dir(prop + "-scan")
    res = {"inconclusive": [], "records": [], "lengths": {}, "build": None, "validator": None}
    try:
        b = build.build_scan_wrapper(scratch)
        res["build"] = b
        v = build.build_scan_validator(scratch, b["dir"])
        res["validator_bin"] = v
    except RuntimeError as e:
        res["inconclusive"].append("scanner wrapper / validator does not build: " + str(e)[-1500:])
        return res
    # environment stubs and oracle are validated natively on every run (stubs depend on the working-tree scanner)
    res["validator"] = []
    for args in VALIDATE[prop][tier]:
        tv = time.time()
        # the validator enumerates on all cores; under memory / thread pressure it can die before printing anything (seen once with three other
        # heavy jobs on the machine): that is not a verdict, so it is retried - a run that prints its summary is never retried
        for attempt in range(3):
            p = subprocess.run([v] + list(args), capture_output=True, text=True)
            if p.returncode == 0 or p.stdout.strip():
                break
            log("[%s] validator %s died without output (exit %s): %s - retrying" % (prop, " ".join(args), p.returncode, p.stderr.strip()[-300:]))
            time.sleep(20)
        res["validator"].append({"args": list(args), "summary": p.stdout.strip().split("\n")[-1] if p.stdout.strip() else "", "exit": p.returncode,
                                 "wall_s": round(time.time() - tv, 1)})
        log("[%s] validator %s: %s (%.1fs)" % (prop, " ".join(args), res["validator"][-1]["summary"], time.time() - tv))
        if p.returncode != 0:
            res["inconclusive"].append("validator: the environment stubs or the grammar oracle disagree with real syn (or the validator died): " + (p.stdout[-800:] or p.stderr[-400:]))
    mod = E.Module(b["ll"])
    mode = MODE[prop]
    if passes is None:
        passes = PASSES[prop][tier]
    res["passes"] = [{"name": nm, "alphabet": al["text"], "token_trees": "%d..=%d" % (lo, hi)} for nm, al, lo, hi in passes]
    jobs = [(nm, al, n, None) for nm, al, lo, hi in passes for n in range(lo, hi + 1)]
    if templates is None:
        templates = (TEMPLATES + (TEMPLATES_THOROUGH if tier == "thorough" else [])) if prop == "C16" else STRESS
    for t in templates:
        n, fixed = template_fixed(t, spacing=(prop != "C16"))
        jobs.append(("template `%s`" % (t if len(t) < 60 else t[:40] + " ... (%d token trees)" % n), FULL if prop == "C16" else ANY, n, fixed))
    if templates:
        res["passes"].append({"name": "templates", "alphabet": FULL["text"], "templates": templates,
                              "meaning": "`?` = any one token tree of the alphabet; `a` identifier, `s` keyword `as`, `g` / `b` / `k` the groups `(a, a)` / `{ a }` / `[a, a]`; "
                                         "spacing symbolic (C16) or as written (C18 stress sequences)"})
    all_recs, total = [], {}
    for ji, (pname, al, n, fixed) in enumerate(jobs):
        outdir = os.path.join(scratch, "paths-%d-%d" % (ji, n))
        os.makedirs(outdir)
        ex = driver.ParallelExec(mod, outdir, multiprocessing.Semaphore(common.NCPU - 1), max_steps=60000 * (n + 2))
        bs = [z3.BitVec("t%d_%s" % (i // 4, "kcjw"[i % 4]), 8) for i in range(4 * n)]

        digest_base = [None]

        def setup(ex, st, n=n, bs=bs, digest_base=digest_base, al=al, fixed=fixed):
            buf = st.alloc(max(4 * n, 1), "tokens")
            for i in range(4 * n):
                buf.data[i] = bs[i]
            dg = st.alloc(64, "digest")
            for i in range(64):
                dg.data[i] = 0
            digest_base[0] = dg.base
            fr = st.frames[0]
            names = [q[1] for q in fr.fn.params]
            fr.regs[names[0]] = buf.base
            fr.regs[names[1]] = n
            fr.regs[names[2]] = dg.base
            fr.regs[names[3]] = mode
            if n:
                st.pc.append(valid_constraint(z3, bs, n, al, "any" if mode == 2 else "lexer"))
                if fixed:
                    st.pc.append(z3.And(*[z3.And(bs[4 * q] == k, bs[4 * q + 1] == c, bs[4 * q + 3] == w, *([bs[4 * q + 2] == j] if j is not None else []))
                                          for q, k, c, w, j in fixed]))

        def describe(kind, detail, st, m, bs=bs, n=n, digest_base=digest_base, pname=pname):
            inp = [m.eval(x, model_completion=True).as_long() for x in bs] if m is not None else None
            rec = {"kind": kind, "n": n, "input": inp, "pass": pname}
            if kind == "ret":
                rv = detail
                if E.is_sym(rv):
                    rv = m.eval(rv, model_completion=True).as_long()
                rec["code"] = rv
                try:
                    o = st.find(digest_base[0], 0)
                    dg = []
                    for i in range(64):
                        v = o.data.get(i)
                        dg.append(None if v is None else (m.eval(v, model_completion=True).as_long() if E.is_sym(v) else v))
                    rec["digest"] = dg
                except E.Event:
                    rec["digest"] = None
            else:
                rec["detail"] = str(detail)[:300]
                rec["where"] = [f.fn.name[:80] for f in st.frames[-3:]]
            return rec
        ex.describe = describe
        t = time.time()
        ok = ex.run_parallel("@probe", setup)
        recs, stats, solver_s = driver.collect(outdir)
        if not ok:
            res["inconclusive"].append("a worker of the %d-token exploration (%s alphabet) died" % (n, pname))
        res["lengths"]["%s/%d" % (pname, n)] = {"paths": stats.get("paths", 0), "queries": stats.get("queries", 0), "instrs": stats.get("instrs", 0),
                             "solver_s": round(solver_s, 2), "wall_s": round(time.time() - t, 2),
                             "ends": {k[4:]: c for k, c in stats.items() if k.startswith("end_")}}
        log("[%s] scanner: %s alphabet, %d token trees: paths=%d queries=%d solver=%.1fs wall=%.1fs ends=%s" % (
            prop, pname, n, stats.get("paths", 0), stats.get("queries", 0), solver_s, time.time() - t, res["lengths"]["%s/%d" % (pname, n)]["ends"]))
        all_recs.extend(recs)
    res["records"] = all_recs
    res["explore_s"] = time.time() - t0
    rets = [r for r in all_recs if r["kind"] == "ret"]
    cap = 8000 if tier == "quick" else 60000
    sample = [r for r in rets if r["code"] != 0] + [r for r in rets if r["code"] == 0][:cap]
    nat = native.run_native(b["so"], [bytes(r["input"]) for r in sample], len_div=4, extra=(mode,))
    mism, first = 0, None
    for r, x in zip(sample, nat):
        r["native"] = x
        if x is None or x.get("code") != r["code"] or not all(a is None or a == b for a, b in zip(r.get("digest") or [], x.get("digest") or [])):
            mism += 1
            first = first or (r["input"], r["code"], (r.get("digest") or [])[:36], x)
    res["validated"] = len(sample)
    res["validation_mismatches"] = mism
    if mism:
        res["inconclusive"].append("llsym and the native build disagree on %d of %d replayed scanner paths, first: %r" % (mism, len(sample), first))
    # aborting paths and paths over the step budget (non-termination candidates) are re-run natively; only what the machine confirms is reported
    bad = [r for r in all_recs if r["kind"] in ("panic", "memerr", "unreachable") or (r["kind"] == "inconclusive" and "step budget" in str(r.get("detail")))]
    bad = [r for r in bad if r.get("input") is not None]
    nat = native.run_native(b["so"], [bytes(r["input"]) for r in bad[:200]], len_div=4, extra=(mode,), timeout_per_input=10.0, each=True)
    for r, x in zip(bad, nat):
        r["native"] = x
        if r["kind"] == "inconclusive" and x.get("timeout"):
            r["kind"] = "hang"
    for r in all_recs:
        if r["kind"] in ("unsupported", "inconclusive"):
            res["inconclusive"].append("scanner path ended %s: %s (token trees %r)" % (r["kind"], r.get("detail"), r.get("input")))
            break
    return res


def coverage(res, tier, prop):
    L = res["lengths"]
    return {
        "states": sum(v["paths"] for v in L.values()),
        "transitions": sum(v["queries"] for v in L.values()),
        "traces_validated_against_impl": res.get("validated", 0),
        "engine": "llsym over the LLVM IR of the wrapper: the unmodified working-tree impl/src/parsing.rs + FmtArgument (cut from impl/src/fmt/mod.rs) "
                  "compiled against environment stubs for syn / proc_macro2 / quote",
        "functions_encoded": ["impl/src/parsing.rs (whole file): Expr::parse, take_until1, alt, seq, balanced_pair, path_sep, punct_with_spacing, punct, token_tree",
                              "impl/src/fmt/mod.rs::FmtArgument (Parse, ToTokens), driven like Punctuated::parse_terminated"] +
                             (["vf/llsym/rust/scan/scan_oracle.rs::expr_list (grammar oracle, pinned against syn 2 `full`)"] if prop == "C16" else []),
        "bounds": {"input": "every valid sequence of token trees (kind, char, spacing, keyword - all symbolic) within each pass",
                   "passes": res.get("passes"),
                   "outside": "longer argument lists; token trees outside the alphabets (other operators and keywords, lifetimes, `?`, ranges, a lone `:`); "
                              "groups are opaque single token trees with fixed content (the scanner never looks inside one)"},
        "per_pass_and_length": L,
        "solver_time_s": round(sum(v["solver_s"] for v in L.values()), 1),
        "validator": res.get("validator"),
        "native_validation": {"paths_replayed": res.get("validated", 0), "mismatches": res.get("validation_mismatches", 0)},
    }
