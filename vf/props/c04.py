"""C04 - inferred formatting bounds: the mapping placeholders -> (field type, trait) (engine L on `FmtAttribute::bounded_types`).

Of the four mechanisms the property is anchored in, this check decides the first - "mapping placeholders -> (field type, trait) through names,
positions and identifier arguments" (impl/src/fmt/mod.rs::bounded_types, cut verbatim and run from its LLVM IR).  Which field *types* mention a
type parameter (`contains_generics`), how struct / variant / shared bounds are assembled, and whether rustc then finds the where-clause sufficient
and not excessive are not decided here (DESIGN.md 10.11)."""
import time

from .. import common
from ..common import log
from . import tcall

PROP = "C04"
NAMES = ["a", "b", "_0", "_1"]
FAIL = {8: "a different number of (field type, trait) bounds than the placeholders that refer to fields need",
        9: "a bound on a different field type, or for a different trait, than the placeholder that refers to the field needs"}


def cfg(unnamed, *args):
    """args: (alias or None, identifier name or None)"""
    c = len(args) | ((1 if unnamed else 0) << 2)
    for k, (alias, ident) in enumerate(args):
        a = (1 if alias else 0) | ((NAMES.index(alias) if alias else 0) << 1) | ((1 if ident else 0) << 3) | ((NAMES.index(ident) if ident else 0) << 4)
        c |= a << (3 + 6 * k)
    return c


def render(c):
    out = []
    for k in range(c & 3):
        a = (c >> (3 + 6 * k)) & 63
        e = NAMES[(a >> 4) & 3] if a & 8 else "x.y()"
        out.append(((NAMES[(a >> 1) & 3] + " = ") if a & 1 else "") + e)
    return "".join(", " + x for x in out), "struct S<T, U>" + ("(T, U);" if (c >> 2) & 1 else " { a: T, b: U }")


FORMS = [("named fields, no arguments", cfg(False)), ("named fields, `a`", cfg(False, (None, "a"))), ("named fields, `b, a`", cfg(False, (None, "b"), (None, "a"))),
         ("named fields, `b = a`", cfg(False, ("b", "a"))), ("named fields, `a = b`", cfg(False, ("a", "b"))), ("named fields, `a = <expr>`", cfg(False, ("a", None))),
         ("named fields, `<expr>, b`", cfg(False, (None, None), (None, "b"))), ("named fields, `b = a, a = b`", cfg(False, ("b", "a"), ("a", "b"))),
         ("tuple fields, no arguments", cfg(True)), ("tuple fields, `_1`", cfg(True, (None, "_1"))), ("tuple fields, `_1, _0`", cfg(True, (None, "_1"), (None, "_0"))),
         ("tuple fields, `a = _1`", cfg(True, ("a", "_1"))), ("tuple fields, `_0 = _1`", cfg(True, ("_0", "_1"))), ("tuple fields, `a` (no such field)", cfg(True, (None, "a")))]
ALPHABET = "{}:.*$01ab_ ?x"
DEEP = "{}:01ab_?x"


def main(a):
    if a.replay:
        return tcall.replay_json(PROP, a.replay)
    tier = a.tier
    t0 = time.time()
    kf = common.KnownFindings()
    import re

    def classify(code, lit, c):
        # the open C03 finding seen from here: the literal parser returns None for `{:.}`, so no placeholder and no bound is seen
        if code == 8 and re.search(r"\{[^{}]*:[^{}]*\.[?xXobeEp]?\s*\}", lit) and not re.search(r"\.(\*|\d|[^\W\d]\w*\$)", lit):
            return "dot-without-precision"
        return "other"
    x = tcall.run(PROP, "probe_bounds", FORMS, tier, kf, FAIL, classify,
                  "FmtAttribute::bounded_types, Placeholder::parse_fmt_string, FmtAttribute, FmtArgument",
                  ["impl/src/fmt/mod.rs::FmtAttribute::bounded_types", "impl/src/fmt/mod.rs::Placeholder::parse_fmt_string"],
                  n_full={"quick": 3, "thorough": 5}, n_deep={"quick": 5, "thorough": 8}, alphabet=ALPHABET, deep_alphabet=DEEP, render=render)
    cov = x["coverage"].get("decision_half", {})
    coverage = {
        "states": cov.get("paths", 0), "transitions": cov.get("solver_queries", 0), "traces_validated_against_impl": cov.get("native_cross_check", {}).get("paths", 0),
        "samples": cov.get("samples", []),
        "decided": "mechanism 1 of the property's anchors: which (field type, trait) pairs an attribute asks bounds for",
        "not_decided": ["which field types mention a type parameter (contains_generics)", "assembly of struct / variant / shared / field-attribute bounds (display.rs, debug.rs)",
                        "sufficiency and non-excess of the resulting where-clause (rustc's trait solver)"],
        "known_findings_reported": x["known"], "inconclusive": x["inconclusive"][:10], "exhaustive": False,
        "explanation": "states = symbolic paths; transitions = solver queries; traces_validated = paths re-run natively (return code must agree)",
    }
    coverage.update(cov)
    common.write_evidence(PROP, tier, "model_checking", coverage, [
        "the oracle resolves placeholders the way format_args! does, over std's reading of the literal (vf/llsym/rust/oracle.rs, pinned against "
        "rustc_parse_format); fields are `{ a: T, b: U }` or `(T, U)`, identifiers a / b / _0 / _1",
        "environment stubs for syn / proc_macro2 / quote (vf/llsym/rust/scan/shim_*): Fields, Field, Type, LitStr, Punctuated, Ident, IdentExt::unraw",
        "bounded_types is cut out of impl/src/fmt/mod.rs by method name and compiled verbatim",
    ], time.time() - t0, len(x["violations"]))
    for l in x["known"]:
        print(l)
    for key, path, what in x["violations"]:
        print("VIOLATION property=%s replay=%s" % (PROP, path))
        log("  %s: %s" % (key, what))
    if x["violations"]:
        return common.EXIT_VIOLATION
    if x["inconclusive"]:
        for i in x["inconclusive"][:8]:
            log("[%s] INCONCLUSIVE: %s" % (PROP, i[:600]))
        return common.EXIT_INCONCLUSIVE
    log("[%s] held within the bound: %d paths, %d solver queries, wall %.0fs" % (PROP, coverage["states"], coverage["transitions"], time.time() - t0))
    return common.EXIT_OK
