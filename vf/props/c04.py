"""C04 - inferred formatting bounds: the mapping placeholders -> (field type, trait) (engine L on `FmtAttribute::bounded_types`).

Of the four mechanisms the property is anchored in, this check decides the first - "mapping placeholders -> (field type, trait) through names,
positions and identifier arguments" (impl/src/fmt/mod.rs::bounded_types, cut verbatim and run from its LLVM IR).  Which field *types* mention a
type parameter (`contains_generics`), how struct / variant / shared bounds are assembled, and whether rustc then finds the where-clause sufficient
and not excessive are not decided here (DESIGN.md 10.11)."""
import time

from .. import common
from ..common import log
from . import tcall

PROP = "C04"
NAMES = ["a", "b", "_0", "_1"]
FAIL = {8: "a different number of (field type, trait) bounds than the placeholders that refer to fields need",
        9: "a bound on a different field type, or for a different trait, than the placeholder that refers to the field needs"}


def cfg(unnamed, *args):
    """args: (alias or None, identifier name or None)"""
    c = len(args) | ((1 if unnamed else 0) << 2)
    for k, (alias, ident) in enumerate(args):
        a = (1 if alias else 0) | ((NAMES.index(alias) if alias else 0) << 1) | ((1 if ident else 0) << 3) | ((NAMES.index(ident) if ident else 0) << 4)
        c |= a << (3 + 6 * k)
    return c


def render(c):
    out = []
    for k in range(c & 3):
        a = (c >> (3 + 6 * k)) & 63
        e = NAMES[(a >> 4) & 3] if a & 8 else "x.y()"
        out.append(((NAMES[(a >> 1) & 3] + " = ") if a & 1 else "") + e)
    return "".join(", " + x for x in out), "struct S<T, U>" + ("(T, U);" if (c >> 2) & 1 else " { a: T, b: U }")


FORMS = [("named fields, no arguments", cfg(False)), ("named fields, `a`", cfg(False, (None, "a"))), ("named fields, `b, a`", cfg(False, (None, "b"), (None, "a"))),
         ("named fields, `b = a`", cfg(False, ("b", "a"))), ("named fields, `a = b`", cfg(False, ("a", "b"))), ("named fields, `a = <expr>`", cfg(False, ("a", None))),
         ("named fields, `<expr>, b`", cfg(False, (None, None), (None, "b"))), ("named fields, `b = a, a = b`", cfg(False, ("b", "a"), ("a", "b"))),
         ("tuple fields, no arguments", cfg(True)), ("tuple fields, `_1`", cfg(True, (None, "_1"))), ("tuple fields, `_1, _0`", cfg(True, (None, "_1"), (None, "_0"))),
         ("tuple fields, `a = _1`", cfg(True, ("a", "_1"))), ("tuple fields, `_0 = _1`", cfg(True, ("_0", "_1"))), ("tuple fields, `a` (no such field)", cfg(True, (None, "a")))]
ALPHABET = "{}:.*$01ab_ ?x"
DEEP = "{}:01ab_?x"


def _classify(code, lit, c):
    import re
    # the open C03 finding seen from here: the literal parser returns None for `{:.}`, so no placeholder and no bound is seen
    if code == 8 and tcall.has_dot_without_precision(lit):
        return "dot-without-precision"
    return "other"


def extra_pass(tier, kf):
    return tcall.run(PROP, "probe_bounds", FORMS, tier, kf, FAIL, _classify,
                     "FmtAttribute::bounded_types, Placeholder::parse_fmt_string, FmtAttribute, FmtArgument",
                     ["impl/src/fmt/mod.rs::FmtAttribute::bounded_types", "impl/src/fmt/mod.rs::Placeholder::parse_fmt_string"],
                     n_full={"quick": 3, "thorough": 4}, n_deep={"quick": 5, "thorough": 7}, alphabet=ALPHABET, deep_alphabet=DEEP, render=render)


def replay_json(path):
    return tcall.replay_json(PROP, path)


# ------------------------------------------------------------------------------------------------------------------
# grid half (engine K): generic types instantiated with field types that implement EXACTLY ONE formatting trait (or none).  That the derived impl
# exists for the instantiation is rustc's verdict (sufficiency: the expansion type-checks; non-excess: the impl is available although the other
# parameters implement nothing) - evaluated by the harness build, attributed like every expansion that does not compile (DESIGN.md 1.5); the harness
# itself then decides, for every value, that the output is what the fields print.

from ..shapes import Shape, Harness  # noqa: E402
from . import fmtsupport  # noqa: E402

CRATE_ATTRS = fmtsupport.CRATE_ATTRS
SUPPORT = fmtsupport.SUPPORT + r"""
/// field types implementing exactly one formatting trait: two marker bytes (trait letter, id letter), like `Probe`
macro_rules! only { ($($name:ident : $tr:ident => $m:expr),*) => {$(
    #[derive(Clone, Copy, PartialEq, Eq)]
    pub struct $name(pub u8);
    impl fmt::$tr for $name {
        fn fmt(&self, f: &mut fmt::Formatter<'_>) -> fmt::Result {
            let b = [$m, b'a' + (self.0 & 15)];
            f.write_str(unsafe { core::str::from_utf8_unchecked(&b) })
        }
    })*};
}
only!(OnlyDisplay: Display => b'D', OnlyDebug: Debug => b'?', OnlyHex: LowerHex => b'x', OnlyPointer: Pointer => b'p');
/// implements exactly Display and Debug
#[derive(Clone, Copy, PartialEq, Eq)]
pub struct DisplayDebug(pub u8);
impl fmt::Display for DisplayDebug {
    fn fmt(&self, f: &mut fmt::Formatter<'_>) -> fmt::Result { let b = [b'D', b'a' + (self.0 & 15)]; f.write_str(unsafe { core::str::from_utf8_unchecked(&b) }) }
}
impl fmt::Debug for DisplayDebug {
    fn fmt(&self, f: &mut fmt::Formatter<'_>) -> fmt::Result { let b = [b'?', b'a' + (self.0 & 15)]; f.write_str(unsafe { core::str::from_utf8_unchecked(&b) }) }
}
/// a trait object type that mentions a type parameter only through an associated-type binding
pub trait Source { type Out; fn get(&self) -> Self::Out; }
impl<T: fmt::Display> fmt::Display for dyn Source<Out = T> {
    fn fmt(&self, f: &mut fmt::Formatter<'_>) -> fmt::Result { fmt::Display::fmt(&self.get(), f) }
}
pub struct Src(pub u8);
impl Source for Src { type Out = OnlyDisplay; fn get(&self) -> OnlyDisplay { OnlyDisplay(self.0) } }
/// implements no formatting trait at all
#[derive(Clone, Copy, PartialEq, Eq)]
pub struct Nothing;
impl Nothing { pub fn tag(&self) -> u8 { 7 } }
pub trait Tagged { fn tagged(&self) -> u8; }
impl Tagged for Nothing { fn tagged(&self) -> u8 { 9 } }
"""
HEAD = ("#![allow(dead_code, unused, clippy::all, non_camel_case_types)]\nuse crate::support::*;\nuse crate::run_fmt;\n"
        "use core::fmt::{self, FormattingOptions, Write as _};\n\n")


def module(decl, harness_src):
    return HEAD + decl + "\n\n#[cfg(kani)]\nmod proofs {\n    use super::*;\n" + harness_src + "}\n"


def gshape(name, decl, trait, ctor, want, asserts, exercises=None, quick=True):
    """ctor: expression of the instantiated value (may use `i`, `j`: symbolic u8); want: expected bytes as a Rust expression (array of u8)"""
    src = """    #[kani::proof]
    #[kani::unwind(26)]
    fn bounds_are_sufficient_and_not_excessive() {
        let i: u8 = kani::any::<u8>() & 15;
        let j: u8 = kani::any::<u8>() & 15;
        let s = %(ctor)s;
        let (got, _) = run_fmt!(%(T)s, &s, FormattingOptions::new());
        let want: &[u8] = &%(want)s;
        assert!(!got.overflow, "HARNESS: sink too small");
        assert!(got.len == want.len(), "output length differs from what the formatted fields print");
        let mut k = 0;
        while k < want.len() { assert!(got.buf[k] == want[k], "output differs from what the formatted fields print"); k += 1; }
        kani::cover!(true, "reach end");
    }
""" % dict(ctor=ctor, T=trait, want=want)
    return Shape("c04_" + name, module(decl, src),
                 [Harness("bounds_are_sufficient_and_not_excessive", "field ids symbolic (the instantiation - which traits the type arguments implement - is concrete)",
                          covers=1, unwind=26, asserts=asserts)],
                 decl.replace("\n", " "), exercises=exercises or ["impl/src/fmt/display.rs::Expansion::generate_bounds", "impl/src/fmt/mod.rs::FmtAttribute::bounded_types",
                                                                  "impl/src/fmt/mod.rs::ContainsGenericsExt"], quick=quick, crate_attrs=CRATE_ATTRS)


def shapes(tier):
    D = "#[derive(derive_more::Display)]\n"
    out = []
    out.append(gshape("named_in_literal", D + '#[display("{a}")]\npub struct G<T, U> { pub a: T, pub b: U }', "Display",
                      "G { a: OnlyDisplay(i), b: Nothing }", "[b'D', b'a' + i]", "`{a}`: T: Display only; U unbounded"))
    out.append(gshape("two_traits", D + '#[display("{a:?}{b:x}")]\npub struct G<T, U> { pub a: T, pub b: U }', "Display",
                      "G { a: OnlyDebug(i), b: OnlyHex(j) }", "[b'?', b'a' + i, b'x', b'a' + j]", "`{a:?}{b:x}`: T: Debug, U: LowerHex, nothing else"))
    out.append(gshape("positional_arguments", D + '#[display("{}{:x}", b, a)]\npub struct G<T, U> { pub a: T, pub b: U }', "Display",
                      "G { a: OnlyHex(i), b: OnlyDisplay(j) }", "[b'D', b'a' + j, b'x', b'a' + i]", "positional placeholders resolved to identifier arguments"))
    out.append(gshape("alias_and_positional_to_alias", D + '#[display("{n:?}{}", v = b, n = a)]\npub struct G<T, U> { pub a: T, pub b: U }', "Display",
                      "G { a: OnlyDebug(i), b: OnlyDisplay(j) }", "[b'?', b'a' + i, b'D', b'a' + j]", "named placeholder through an alias; implicit placeholder landing on an aliased argument"))
    out.append(gshape("tuple_fields", D + '#[display("{_1:x}|{}", _0)]\npub struct G<T, U>(pub T, pub U);', "Display",
                      "G(OnlyDisplay(i), OnlyHex(j))", "[b'x', b'a' + j, b'|', b'D', b'a' + i]", "tuple fields by `_i` name and as argument"))
    out.append(gshape("expression_argument_no_bound", D + '#[display("{}{a}", b.tag())]\npub struct G<T> { pub a: T, pub b: Nothing }', "Display",
                      "G { a: OnlyDisplay(i), b: Nothing }", "[b'7', b'D', b'a' + i]", "an expression argument produces no bound"))
    out.append(gshape("unformatted_parameter_unbounded", D + '#[display("{a}")]\npub struct G<T, U, V> { pub a: T, pub b: U, pub c: core::marker::PhantomData<V> }', "Display",
                      "G::<OnlyDisplay, Nothing, Nothing> { a: OnlyDisplay(i), b: Nothing, c: core::marker::PhantomData }", "[b'D', b'a' + i]",
                      "type parameters of fields that are not formatted stay unbounded"))
    out.append(gshape("reference_and_array_fields", D + '#[display("{a}{b:?}")]\npub struct G<\'x, T, U: \'x> { pub a: &\'x T, pub b: [U; 1] }', "Display",
                      "G { a: &OnlyDisplay(i), b: [OnlyDebug(j)] }", "[b'D', b'a' + i, b'[', b'?', b'a' + j, b']']", "bounds on the field types `&T` and `[U; 1]`"))
    out.append(gshape("explicit_bound", D + '#[display("{}", a.tagged())]\n#[display(bound(T: Tagged))]\npub struct G<T> { pub a: T }', "Display",
                      "G { a: Nothing }", "[b'9']", "`bound(T: Tagged)` is added and nothing is inferred for an expression argument"))
    out.append(gshape("single_field_delegation", D + "pub struct G<T>(pub T);", "Display", "G(OnlyDisplay(i))", "[b'D', b'a' + i]", "no attribute: the derived trait on the single field"))
    out.append(gshape("lower_hex_delegation", "#[derive(derive_more::LowerHex)]\npub struct G<T>(pub T);", "LowerHex", "G(OnlyHex(i))", "[b'x', b'a' + i]",
                      "derive(LowerHex) without attribute: T: LowerHex"))
    out.append(gshape("enum_variants", D + 'pub enum G<T, U, V> {\n    A(T),\n    #[display("{_0:?}")]\n    B(U),\n    #[display("c")]\n    C(V),\n    D,\n}', "Display",
                      "if i & 1 == 0 { G::<OnlyDisplay, OnlyDebug, Nothing>::A(OnlyDisplay(i)) } else { G::B(OnlyDebug(j)) }",
                      "(if i & 1 == 0 { [b'D', b'a' + i] } else { [b'?', b'a' + j] })", "per variant: delegation bound, attribute bound, no bound for an unformatted field"))
    out.append(gshape("enum_shared_wrapping", D + '#[display("<{_variant}>")]\npub enum G<T, U> {\n    A(T),\n    #[display("{_0:?}")]\n    B(U),\n    C,\n}', "Display",
                      "if i & 1 == 0 { G::<OnlyDisplay, OnlyDebug>::A(OnlyDisplay(i)) } else { G::B(OnlyDebug(j)) }",
                      "(if i & 1 == 0 { [b'<', b'D', b'a' + i, b'>'] } else { [b'<', b'?', b'a' + j, b'>'] })",
                      "wrapping shared format: the variants' own bounds are still needed (delegation for A, Debug for B)"))
    out.append(gshape("enum_shared_wrapping_hex", '#[derive(derive_more::LowerHex)]\n#[lower_hex("0{_variant}")]\npub enum G<T> {\n    A(T),\n    #[lower_hex("n")]\n    N,\n}', "LowerHex",
                      "G::A(OnlyHex(i))", "[b'0', b'x', b'a' + i]", "wrapping shared format on a non-Display derive: T: LowerHex"))
    out.append(gshape("enum_shared_with_field", D + '#[display("{_variant}:{_0:x}")]\npub enum G<T, U> {\n    #[display("a")]\n    A(T),\n    #[display("{_0:?}")]\n    B(U),\n}', "Display",
                      "G::<OnlyHex, OnlyHexDebug>::A(OnlyHex(i))", "[b'a', b':', b'x', b'a' + i]",
                      "a field referenced by the shared format needs its trait in every variant", quick=False))
    DB = "#[derive(derive_more::Debug)]\n"
    out.append(gshape("debug_fields", DB + "pub struct G<T, U>(pub T, #[debug(skip)] pub U);", "Debug", "G(OnlyDebug(i), Nothing)",
                      "[b'G', b'(', b'?', b'a' + i, b',', b' ', b'.', b'.', b')']", "Debug: T: Debug for the printed field, nothing for the skipped one",
                      exercises=["impl/src/fmt/debug.rs::Expansion::generate_bounds"]))
    out.append(gshape("debug_field_format", DB + 'pub struct G<T, U> { #[debug("{a}")] pub a: T, pub b: U }', "Debug", "G { a: OnlyDisplay(i), b: OnlyDebug(j) }",
                      "[b'G', b' ', b'{', b' ', b'a', b':', b' ', b'D', b'a' + i, b',', b' ', b'b', b':', b' ', b'?', b'a' + j, b' ', b'}']",
                      "field-level `#[debug(\"{a}\")]`: T: Display (not Debug); the plain field U: Debug", exercises=["impl/src/fmt/debug.rs::Expansion::generate_bounds"]))
    out.append(gshape("assoc_type_binding", D + '#[display("{a}")]\npub struct G<\'x, T> { pub a: &\'x dyn Source<Out = T> }', "Display",
                      "{ static SRC: Src = Src(3); G { a: &SRC } }", "[b'D', b'a' + 3]", "a field type that mentions T only as `dyn Source<Out = T>` still needs its bound"))
    out.append(gshape("debug_same_field_two_traits", DB + '#[debug("{a:?}/{a}")]\npub struct G<T> { pub a: T }', "Debug", "G { a: DisplayDebug(i) }",
                      "[b'?', b'a' + i, b'/', b'D', b'a' + i]", "two placeholders on the same field under different traits need both bounds",
                      exercises=["impl/src/fmt/debug.rs::Expansion::generate_bounds"]))
    out.append(gshape("debug_field_format_two_traits", DB + 'pub struct G<T> { #[debug("{a}({a:?})")] pub a: T }', "Debug", "G { a: DisplayDebug(i) }",
                      "[b'G', b' ', b'{', b' ', b'a', b':', b' ', b'D', b'a' + i, b'(', b'?', b'a' + i, b')', b' ', b'}']",
                      "field-level format naming the field under two traits", exercises=["impl/src/fmt/debug.rs::Expansion::generate_bounds"]))
    out.append(gshape("display_same_type_two_fields_two_traits", D + '#[display("{a:x}..{b}")]\npub struct G<T, U> { pub a: T, pub b: U }', "Display",
                      "G { a: OnlyHex(i), b: OnlyDisplay(j) }", "[b'x', b'a' + i, b'.', b'.', b'D', b'a' + j]", "adjacent placeholders, different traits"))
    # explicit bound(..) on an enum itself and on a variant (Display-like derives and Debug)
    out.append(gshape("explicit_bound_enum_level", D + '#[display(bound(T: Tagged))]\npub enum G<T> {\n    #[display("{}", _0.tagged())]\n    A(T),\n    #[display("b")]\n    B,\n}', "Display",
                      "G::A(Nothing)", "[b'9']", "`bound(..)` written on the enum reaches the impl"))
    out.append(gshape("explicit_bound_variant_level", D + 'pub enum G<T> {\n    #[display("{}", _0.tagged())]\n    #[display(bound(T: Tagged))]\n    A(T),\n    #[display("b")]\n    B,\n}', "Display",
                      "G::A(Nothing)", "[b'9']", "`bound(..)` written on a variant reaches the impl"))
    out.append(gshape("explicit_bound_enum_level_hex", '#[derive(derive_more::LowerHex)]\n#[lower_hex(bound(T: Tagged))]\npub enum G<T> {\n    #[lower_hex("{:x}", _0.tagged())]\n    A(T),\n}', "LowerHex",
                      "G::A(Nothing)", "[b'9']", "`bound(..)` written on the enum reaches the impl (non-Display derive)", quick=False))
    out.append(gshape("debug_explicit_bound_enum_level", DB + '#[debug(bound(T: Tagged))]\npub enum G<T> {\n    #[debug("{}", _0.tagged())]\n    A(T),\n    B,\n}', "Debug",
                      "G::A(Nothing)", "[b'9']", "Debug: `bound(..)` written on the enum reaches the impl", exercises=["impl/src/fmt/debug.rs::Expansion::generate_bounds"]))
    # the item is produced by macro_rules!: a `$t:ty` fragment reaches the derive as syn::Type::Group around the type that mentions the parameter
    out.append(gshape("macro_rules_ty_fragment", 'macro_rules! mk { ($t:ty, $u:ty) => { #[derive(derive_more::Display)]\n#[display("{a}{b:?}")]\npub struct G<T, U> { pub a: $t, pub b: [$u; 1] } }; }\nmk!(T, U);', "Display",
                      "G { a: OnlyDisplay(i), b: [OnlyDebug(j)] }", "[b'D', b'a' + i, b'[', b'?', b'a' + j, b']']",
                      "field types pasted through `$t:ty` (Type::Group) still mention the type parameters", exercises=["impl/src/fmt/mod.rs::ContainsGenericsExt"]))
    out.append(gshape("macro_rules_ty_fragment_debug", 'macro_rules! mk { ($t:ty) => { #[derive(derive_more::Debug)]\npub struct G<T>(pub $t, pub Option<$t>); }; }\nmk!(T);', "Debug",
                      "G(OnlyDebug(i), None)", "[b'G', b'(', b'?', b'a' + i, b',', b' ', b'N', b'o', b'n', b'e', b')']",
                      "Debug: field types pasted through `$t:ty`", exercises=["impl/src/fmt/mod.rs::ContainsGenericsExt", "impl/src/fmt/debug.rs::Expansion::generate_bounds"]))
    # `.*` on a placeholder with an EXPLICIT argument still consumes the next implicit one for its precision (seed C04-star-precision-counter-only-for-implicit)
    out.append(gshape("star_precision_on_named_placeholder", D + '#[display("{_0:.*}|{}", 2, _1)]\npub struct G<T, U>(pub T, pub U);', "Display",
                      "G(OnlyDisplay(i), OnlyDisplay(j))", "[b'D', b'a' + i, b'|', b'D', b'a' + j]", "the implicit placeholder after `{_0:.*}` lands on `_1`: U: Display"))
    out.append(gshape("star_precision_on_indexed_placeholder", D + 'pub enum G<T, U> {\n    #[display("{2:.*}|{:?}", 1, tag, val)]\n    A { tag: U, val: T },\n}', "Display",
                      "G::A { tag: OnlyDebug(i), val: OnlyDisplay(j) }", "[b'D', b'a' + j, b'|', b'?', b'a' + i]", "`{2:.*}` takes its precision from argument 0, `{:?}` is argument 1 = `tag`: U: Debug, T: Display"))
    # an explicit bound(..) on an item WITHOUT a format string (delegation to the single field) reaches the impl too (fix 9565858): the impl must not
    # exist for a field type that violates it - a must-not-compile program, decided by rustc
    from ..shapes import reject_shape
    out.append(reject_shape("c04", "explicit_bound_without_format_is_enforced",
                            "pub trait Approved {} pub struct No; impl core::fmt::Display for No { fn fmt(&self, f: &mut core::fmt::Formatter<'_>) -> core::fmt::Result { f.write_str(\"n\") } }\n"
                            "#[derive(derive_more::Display)] #[display(bound(T: Approved))] pub struct S<T>(pub T);\npub fn f(s: &S<No>) -> &dyn core::fmt::Display { s }",
                            "`bound(T: Approved)` without a format string must be part of the impl's where-clause", ["impl/src/fmt/display.rs::Expansion::generate_bounds"]))
    out.append(reject_shape("c04", "explicit_bound_on_attrless_variant_is_enforced",
                            "pub trait Approved {} pub struct No; impl core::fmt::Display for No { fn fmt(&self, f: &mut core::fmt::Formatter<'_>) -> core::fmt::Result { f.write_str(\"n\") } }\n"
                            "#[derive(derive_more::Display)] pub enum E<T> { #[display(bound(T: Approved))] A(T), #[display(\"b\")] B }\npub fn f(s: &E<No>) -> &dyn core::fmt::Display { s }",
                            "variant-level `bound(..)` on a variant without a format string", ["impl/src/fmt/display.rs::Expansion::generate_bounds"]))
    out = [x for x in out if x.name != "c04_enum_shared_with_field"]
    if tier == "quick":
        out = [s for s in out if s.quick]
    return out


DESCRIPTION = {
    "grid": "20 generic structs / enums (named and tuple fields, references and arrays, PhantomData, expression arguments, aliases, explicit bound(..), "
            "attribute-less delegation under Display and LowerHex, per-variant attributes, wrapping shared formats, Debug with skipped fields and field formats), "
            "each instantiated with field types that implement exactly one formatting trait or none",
    "symbolic": "the field ids (and which variant); the instantiation is concrete",
    "oracle": "rustc: the derived impl must exist for the instantiation (sufficient bounds: the expansion type-checks; not excessive: parameters that are not "
              "formatted implement no formatting trait) - decided by the harness build; then the bytes the fields print",
    "not_covered": ["generic definitions outside the grid", "where-clauses are not inspected textually: excess is only seen through an instantiation that lacks the trait"],
}
ASSUMPTIONS = ["sufficiency / non-excess of the where-clause are decided by rustc's trait solver when the harness crate is built (not by the SAT solver); a shape whose "
               "expansion or instantiation does not compile is reported as a violation attributed to that shape",
               "decision half (engine L): see coverage.decision_half and DESIGN.md 10.11"]
