"""C08 - From / Into / Constructor preserve field order and invert each other."""
from ..shapes import Shape, Harness

SUPPORT = """// field and source types for the C08 harnesses
#[derive(Clone, Copy, PartialEq, Eq, Debug)]
pub struct A(pub u16);
#[derive(Clone, Copy, PartialEq, Eq, Debug)]
pub struct B(pub u16);
/// source types converted into A / B by `#[from(..)]`, `#[from(forward)]`
#[derive(Clone, Copy, PartialEq, Eq, Debug)]
pub struct SA(pub u16);
#[derive(Clone, Copy, PartialEq, Eq, Debug)]
pub struct SB(pub u16);
/// target types A / B are converted into by `#[into(..)]`
#[derive(Clone, Copy, PartialEq, Eq, Debug)]
pub struct TA(pub u16);
#[derive(Clone, Copy, PartialEq, Eq, Debug)]
pub struct TB(pub u16);

/// calls of the field types' own conversions: [SA->A, SB->B, A->TA, B->TB]
pub static mut CALLS: [u32; 4] = [0; 4];
pub fn calls() -> [u32; 4] { unsafe { CALLS } }

impl From<SA> for A { fn from(s: SA) -> A { unsafe { CALLS[0] += 1; } A(s.0 ^ 0x5a5a) } }
impl From<SB> for B { fn from(s: SB) -> B { unsafe { CALLS[1] += 1; } B(s.0.wrapping_add(7)) } }
impl From<A> for TA { fn from(s: A) -> TA { unsafe { CALLS[2] += 1; } TA(s.0 ^ 0x0ff0) } }
impl From<B> for TB { fn from(s: B) -> TB { unsafe { CALLS[3] += 1; } TB(s.0.wrapping_sub(3)) } }

/// `has_from::<T, S>()`: does `T: From<S>` hold?  Decided by rustc's trait resolution (autoref specialisation); the harness
/// only evaluates the answer.  Used for the "no impl for skipped / unit / un-annotated variants" clause.
pub struct Wrap<T, S>(pub core::marker::PhantomData<(T, S)>);
pub trait ViaFrom { fn implements(&self) -> bool; }
impl<T: From<S>, S> ViaFrom for Wrap<T, S> { fn implements(&self) -> bool { true } }
pub trait Fallback { fn implements(&self) -> bool; }
impl<T, S> Fallback for &Wrap<T, S> { fn implements(&self) -> bool { false } }
#[macro_export]
macro_rules! has_from { ($t:ty, $s:ty) => { (&$crate::support::Wrap::<$t, $s>(core::marker::PhantomData)).implements() }; }
"""

HEAD = "#![allow(dead_code, unused, clippy::all)]\nuse crate::support::*;\nuse crate::has_from;\nuse core::ptr;\n\n"
NAMES = ["x", "y", "z"]
FIELD_SETS = {0: [], 1: ["A"], 2: ["A", "B"], 3: ["A", "B", "A"]}
SAME_TYPED = {2: ["A", "A"], 3: ["B", "A", "A"]}


def module(decls, harness_src):
    return HEAD + decls + "\n\n#[cfg(kani)]\nmod proofs {\n    use super::*;\n" + harness_src + "}\n"


def tup(items):
    if len(items) == 1:
        return items[0]
    return "(" + ", ".join(items) + ")"


class St:
    def __init__(self, kind, tys, name="S"):
        self.kind, self.tys, self.name = kind, tys, name  # kind: unit | tuple | named
        self.n = len(tys)

    def decl(self, derives, attrs="", field_attrs=None):
        field_attrs = field_attrs or {}
        d = "#[derive(Clone, Copy, PartialEq, Debug, %s)]\n%s" % (", ".join("derive_more::" + x for x in derives), attrs)
        fa = lambda i: (field_attrs[i] + " ") if i in field_attrs else ""   # noqa
        if self.kind == "unit":
            return d + "pub struct %s;" % self.name
        if self.kind == "named":
            return d + "pub struct %s { %s }" % (self.name, ", ".join("%spub %s: %s" % (fa(i), NAMES[i], t) for i, t in enumerate(self.tys)))
        return d + "pub struct %s(%s);" % (self.name, ", ".join("%spub %s" % (fa(i), t) for i, t in enumerate(self.tys)))

    def acc(self, i):
        return NAMES[i] if self.kind == "named" else str(i)

    def build(self, exprs):
        if self.kind == "unit":
            return self.name
        if self.kind == "named":
            return "%s { %s }" % (self.name, ", ".join("%s: %s" % (NAMES[i], e) for i, e in enumerate(exprs)))
        return "%s(%s)" % (self.name, ", ".join(exprs))

    def tag(self):
        return "%s%d" % (self.kind, self.n)


def anyv(t):
    return "%s(kani::any())" % t


def plain_shape(st, tagx=""):
    """From + Into (owned, ref, ref_mut) + Constructor on a struct"""
    decl = st.decl(["From", "Into", "Constructor"], "#[into(owned, ref, ref_mut)]\n")
    n = st.n
    vals = ["v%d" % i for i in range(n)]
    lets = "".join("        let v%d = %s;\n" % (i, anyv(t)) for i, t in enumerate(st.tys))
    ty_o = tup(st.tys) if n else "()"
    ty_r = tup(["&" + t for t in st.tys]) if n else "()"
    ty_m = tup(["&mut " + t for t in st.tys]) if n else "()"
    arg = tup(vals) if n else "()"
    src = ""
    hs = []
    fields_eq = lambda s: " && ".join("%s.%s == v%d" % (s, st.acc(i), i) for i in range(n)) or "true"   # noqa
    # from / new / into / round trip
    body = lets
    body += "        let s: S = <S as From<%s>>::from(%s);\n" % (ty_o, arg)
    body += "        assert!(%s, \"From: component i is not in field i\");\n" % fields_eq("s")
    body += "        let c: S = S::new(%s);\n" % ", ".join(vals)
    body += "        assert!(%s, \"new: argument i is not in field i\");\n" % fields_eq("c")
    if n:
        body += "        let %s: %s = s.into();\n" % (tup(["o%d" % i for i in range(n)]), ty_o)
        body += "        assert!(%s, \"Into: component i is not field i\");\n" % " && ".join("o%d == v%d" % (i, i) for i in range(n))
    else:
        body += "        let (): () = s.into();\n"
    body += "        let back: S = S::from(<%s as From<S>>::from(s));\n        assert!(back == s, \"T::from(t.into()) is not t\");\n" % ty_o
    body += "        kani::cover!(true, \"reach end\");\n"
    src += "    #[kani::proof]\n    fn order_and_round_trip() {\n%s    }\n" % body
    hs.append(Harness("order_and_round_trip", "every field value a free u16", covers=1,
                      asserts="from((a,b,..)).i == i-th component; new(a,b,..) likewise; into() yields the fields in order; from(into(s)) == s"))
    if n:
        body = lets + "        let mut s = %s;\n" % st.build(vals)
        body += "        {\n            let %s: %s = (&s).into();\n            assert!(%s, \"ref Into: not references to the very fields, in order\");\n        }\n" % (
            tup(["r%d" % i for i in range(n)]), ty_r, " && ".join("ptr::eq(r%d, &s.%s)" % (i, st.acc(i)) for i in range(n)))
        body += "        let want = [%s];\n" % ", ".join("&s.%s as *const _ as usize" % st.acc(i) for i in range(n))
        body += "        let nv: u16 = kani::any();\n"
        body += "        {\n            let %s: %s = (&mut s).into();\n            let got = [%s];\n            assert!(got == want, \"ref_mut Into: not references to the very fields, in order\");\n            m%d.0 = nv;\n        }\n" % (
            tup(["m%d" % i for i in range(n)]), ty_m, ", ".join("m%d as *mut _ as usize" % i for i in range(n)), n - 1)
        body += "        assert!(s.%s.0 == nv, \"write through ref_mut Into is not visible in the field\");\n" % st.acc(n - 1)
        for i in range(n - 1):
            body += "        assert!(s.%s == v%d, \"write through ref_mut Into changed another field\");\n" % (st.acc(i), i)
        body += "        kani::cover!(true, \"reach end\");\n"
        src += "    #[kani::proof]\n    fn references_are_the_fields() {\n%s    }\n" % body
        hs.append(Harness("references_are_the_fields", "every field value and the written value free u16", covers=1,
                          asserts="<(&A,..)>::from(&s) and <(&mut A,..)>::from(&mut s) are pointer-identical to the fields in order; writes land in that field only"))
    return Shape("c08_plain_%s%s" % (st.tag(), tagx), module(decl, src), hs, decl.replace("\n", " "),
                 exercises=["impl/src/from.rs::Expansion", "impl/src/into.rs::Expansion", "impl/src/constructor.rs::expand"])


def into_skip_shape(kind, skip):
    """3 fields (A, B, A), `#[into(skip)]` on the positions in `skip`"""
    st = St(kind, ["A", "B", "A"])
    decl = st.decl(["Into"], "#[into(owned, ref, ref_mut)]\n", {i: ("#[into(skip)]" if j % 2 == 0 else "#[into(ignore)]") for j, i in enumerate(skip)})
    keep = [i for i in range(3) if i not in skip]
    tys = [st.tys[i] for i in keep]
    lets = "".join("        let v%d = %s;\n" % (i, anyv(t)) for i, t in enumerate(st.tys))
    body = lets + "        let mut s = %s;\n" % st.build(["v0", "v1", "v2"])
    if keep:
        body += "        let %s: %s = s.into();\n        assert!(%s, \"owned Into: not the non-skipped fields in declaration order\");\n" % (
            tup(["o%d" % i for i in keep]), tup(tys), " && ".join("o%d == v%d" % (i, i) for i in keep))
        body += "        {\n            let %s: %s = (&s).into();\n            assert!(%s, \"ref Into: not the non-skipped fields themselves\");\n        }\n" % (
            tup(["r%d" % i for i in keep]), tup(["&" + t for t in tys]), " && ".join("ptr::eq(r%d, &s.%s)" % (i, st.acc(i)) for i in keep))
        body += "        let want = [%s];\n" % ", ".join("&s.%s as *const _ as usize" % st.acc(i) for i in keep)
        body += "        {\n            let %s: %s = (&mut s).into();\n            assert!([%s] == want, \"ref_mut Into: not the non-skipped fields themselves\");\n        }\n" % (
            tup(["m%d" % i for i in keep]), tup(["&mut " + t for t in tys]), ", ".join("m%d as *mut _ as usize" % i for i in keep))
    else:
        body += "        let (): () = s.into();\n"
    body += "        kani::cover!(true, \"reach end\");\n"
    src = "    #[kani::proof]\n    fn skipped_fields_are_left_out_in_order() {\n%s    }\n" % body
    hs = [Harness("skipped_fields_are_left_out_in_order", "every field value a free u16", covers=1,
                  asserts="Into yields exactly the non-skipped fields, in declaration order, owned and by (mutable) reference to the fields")]
    return Shape("c08_into_skip_%s_%s" % (kind, "".join(map(str, skip)) or "none"), module(decl, src), hs, decl.replace("\n", " "),
                 exercises=["impl/src/into.rs::Expansion"])


def typed_shape(kind):
    """#[from((SA, SB))] / #[into((TA, TB))] and forward: exactly one field conversion per field"""
    st = St(kind, ["A", "B"])
    st1 = St(kind, ["A"], name="S1")
    fwd = St(kind, ["A", "B"], name="F")
    fwd1 = St(kind, ["B"], name="F1")
    decl = "\n\n".join([
        st.decl(["From", "Into"], "#[from((SA, SB), (A, B))]\n#[into((TA, TB), (A, B))]\n"),
        st1.decl(["From", "Into"], "#[from(SA, A)]\n#[into(TA)]\n#[into(A)]\n"),
        fwd.decl(["From"], "#[from(forward)]\n"),
        fwd1.decl(["From"], "#[from(forward)]\n"),
    ])
    src = """    #[kani::proof]
    fn typed_from_applies_one_conversion_per_field() {
        let sa = SA(kani::any());
        let sb = SB(kani::any());
        let c0 = calls();
        let s: S = (sa, sb).into();
        let c1 = calls();
        assert!(c1[0] == c0[0] + 1 && c1[1] == c0[1] + 1 && c1[2] == c0[2] && c1[3] == c0[3], "not exactly one From::from per field");
        assert!(s.%(f0)s == A::from(sa) && s.%(f1)s == B::from(sb), "field i is not From::from(component i)");
        let a = A(kani::any());
        let b = B(kani::any());
        let c2 = calls();
        let t: S = (a, b).into();
        assert!(t.%(f0)s == a && t.%(f1)s == b && calls() == c2, "listing the fields' own types must store the components unchanged");
        let s1: S1 = sa.into();
        assert!(s1.%(g0)s == A::from(sa));
        let s1b: S1 = a.into();
        assert!(s1b.%(g0)s == a);
        kani::cover!(true, "reach end");
    }
    #[kani::proof]
    fn typed_into_applies_one_conversion_per_field() {
        let a = A(kani::any());
        let b = B(kani::any());
        let s = %(mk)s;
        let c0 = calls();
        let (ta, tb): (TA, TB) = s.into();
        let c1 = calls();
        assert!(c1[2] == c0[2] + 1 && c1[3] == c0[3] + 1 && c1[0] == c0[0] && c1[1] == c0[1], "not exactly one From::from per field");
        assert!(ta == TA::from(a) && tb == TB::from(b), "component i is not From::from(field i)");
        let (oa, ob): (A, B) = s.into();
        assert!(oa == a && ob == b);
        let s1 = %(mk1)s;
        let t1: TA = s1.into();
        assert!(t1 == TA::from(a));
        let o1: A = s1.into();
        assert!(o1 == a, "repeated #[into(..)] attributes must all be honoured");
        kani::cover!(true, "reach end");
    }
    #[kani::proof]
    fn forward_applies_the_fields_own_from() {
        let sa = SA(kani::any());
        let sb = SB(kani::any());
        let c0 = calls();
        let f: F = (sa, sb).into();
        let c1 = calls();
        assert!(c1[0] == c0[0] + 1 && c1[1] == c0[1] + 1, "not exactly one From::from per field");
        assert!(f.%(f0)s == A::from(sa) && f.%(f1)s == B::from(sb), "forward: field i is not From::from(component i)");
        let a = A(kani::any());
        let g: F = (a, sb).into();
        assert!(g.%(f0)s == a && g.%(f1)s == B::from(sb));
        let f1: F1 = sb.into();
        assert!(f1.%(g0)s == B::from(sb));
        kani::cover!(true, "reach end");
    }
""" % dict(f0=st.acc(0), f1=st.acc(1), g0=st1.acc(0), mk=st.build(["a", "b"]), mk1=st1.build(["a"]))
    hs = [Harness("typed_from_applies_one_conversion_per_field", "source values free u16", covers=1,
                  asserts="#[from((SA,SB),(A,B))]: field i == From::from(component i), exactly one call per field; own types stored unchanged"),
          Harness("typed_into_applies_one_conversion_per_field", "field values free u16", covers=1,
                  asserts="#[into((TA,TB),(A,B))] and repeated #[into]: component i == From::from(field i), one call per field"),
          Harness("forward_applies_the_fields_own_from", "source values free u16", covers=1,
                  asserts="#[from(forward)]: field i == <FieldTy as From<Src_i>>::from(component i), one call per field")]
    return Shape("c08_typed_%s" % kind, module(decl, src), hs, decl.replace("\n", " "),
                 exercises=["impl/src/from.rs::Expansion (types, forward)", "impl/src/into.rs::Expansion (types)"])


def field_level_into_shape():
    decl = ("#[derive(Clone, Copy, PartialEq, Debug, derive_more::Into)]\n#[into(owned, ref)]\n"
            "pub struct S {\n    #[into(owned(TA), ref)]\n    pub x: A,\n    pub y: B,\n    #[into(skip)]\n    pub z: A,\n}\n\n"
            "#[derive(Clone, Copy, PartialEq, Debug, derive_more::Into)]\npub struct OnlyField {\n    pub id: A,\n    #[into]\n    pub raw: B,\n}")
    src = """    #[kani::proof]
    fn field_level_conversions() {
        let s = S { x: A(kani::any()), y: B(kani::any()), z: A(kani::any()) };
        let (a, b): (A, B) = s.into();
        assert!(a == s.x && b == s.y, "struct-level tuple: non-skipped fields in order");
        let (ra, rb): (&A, &B) = (&s).into();
        assert!(ptr::eq(ra, &s.x) && ptr::eq(rb, &s.y));
        let t: TA = s.into();
        assert!(t == TA::from(s.x), "field-level owned(TA) must convert field x");
        let r: &A = (&s).into();
        assert!(ptr::eq(r, &s.x), "field-level ref must be the field x itself");
        let o = OnlyField { id: A(kani::any()), raw: B(kani::any()) };
        let raw: B = o.into();
        assert!(raw == o.raw, "field-level #[into] must extract that field");
        kani::cover!(true, "reach end");
    }
"""
    hs = [Harness("field_level_conversions", "field values free u16", covers=1,
                  asserts="field-level #[into(..)] converts exactly that field; struct-level tuple skips #[into(skip)] fields")]
    return Shape("c08_into_field_level", module(decl, src), hs, decl.replace("\n", " "), exercises=["impl/src/into.rs::Expansion (field attributes)"])


def field_skip_order_shape():
    """A field carrying its own conversion AND `#[into(skip)]`, with the skip written after / between the conversions (the order impl/doc/into.md itself
    uses): the field stays out of the struct-level tuples whatever the position of the skip among its attributes."""
    decl = ("#[derive(Clone, Copy, PartialEq, Debug, derive_more::Into)]\n#[into(owned, ref)]\n"
            "pub struct S {\n    #[into(ref)]\n    #[into(skip)]\n    pub x: A,\n    pub y: B,\n    pub z: A,\n}\n\n"
            "#[derive(Clone, Copy, PartialEq, Debug, derive_more::Into)]\n#[into]\n"
            "pub struct T(pub B, #[into(owned)] #[into(ignore)] #[into(ref)] pub A, pub B);\n\n"
            "#[derive(Clone, Copy, PartialEq, Debug, derive_more::Into)]\n#[into(owned)]\n"
            "pub struct First {\n    #[into(skip)]\n    #[into(ref)]\n    pub x: A,\n    pub y: B,\n}")
    src = """    #[kani::proof]
    fn skip_position_among_field_attributes() {
        let s = S { x: A(kani::any()), y: B(kani::any()), z: A(kani::any()) };
        let (b, a): (B, A) = s.into();
        assert!(b == s.y && a == s.z, "struct-level tuple must leave out the field that carries #[into(skip)] after #[into(ref)]");
        let (rb, ra): (&B, &A) = (&s).into();
        assert!(ptr::eq(rb, &s.y) && ptr::eq(ra, &s.z));
        let rx: &A = (&s).into();
        assert!(ptr::eq(rx, &s.x), "the field's own #[into(ref)] is the field itself");
        let t = T(B(kani::any()), A(kani::any()), B(kani::any()));
        let (b0, b2): (B, B) = t.into();
        assert!(b0 == t.0 && b2 == t.2, "tuple struct: skip written between two conversions");
        let own: A = t.into();
        assert!(own == t.1);
        let r1: &A = (&t).into();
        assert!(ptr::eq(r1, &t.1));
        let f = First { x: A(kani::any()), y: B(kani::any()) };
        let y: B = f.into();
        assert!(y == f.y, "skip written first");
        kani::cover!(true, "reach end");
    }
"""
    hs = [Harness("skip_position_among_field_attributes", "field values free u16", covers=1,
                  asserts="a field with #[into(skip)] is left out of the struct-level tuples wherever the skip stands among the field's #[into] attributes; "
                          "its own conversions still exist and are the field itself")]
    return Shape("c08_into_field_skip_order", module(decl, src), hs, decl.replace("\n", " "), exercises=["impl/src/into.rs::FieldAttribute::merge_attrs"])


def enum_shape(name, variants_src, body, asserts, covers=1):
    decl = "#[derive(Clone, Copy, PartialEq, Debug, derive_more::From)]\npub enum E {\n%s\n}" % variants_src
    src = "    #[kani::proof]\n    fn per_variant_conversions() {\n%s        kani::cover!(true, \"reach end\");\n    }\n" % body
    hs = [Harness("per_variant_conversions", "component values free u16", covers=covers, asserts=asserts)]
    return Shape("c08_enum_%s" % name, module(decl, src), hs, decl.replace("\n", " "), exercises=["impl/src/from.rs::Expansion (enum)"])


def enum_shapes():
    out = []
    out.append(enum_shape("plain", "    X(A),\n    Y(B, A),\n    Z { x: B },\n    W { x: A, y: A, z: B },\n    U,",
                          """        let a = A(kani::any()); let a2 = A(kani::any()); let b = B(kani::any());
        assert!(matches!(E::from(a), E::X(p) if p == a));
        assert!(matches!(E::from((b, a)), E::Y(p, q) if p == b && q == a), "Y: components out of order");
        assert!(matches!(E::from(b), E::Z { x } if x == b));
        assert!(matches!(E::from((a, a2, b)), E::W { x, y, z } if x == a && y == a2 && z == b), "W: same-typed components permuted");
""", "each variant's From puts component i into field i of that variant"))
    out.append(enum_shape("explicit", "    #[from]\n    X(A),\n    NotDerived(A),\n    #[from]\n    Y(A, A),\n    Other(B, B),",
                          """        let a = A(kani::any()); let a2 = A(kani::any());
        assert!(matches!(E::from(a), E::X(p) if p == a), "From<A> must build the annotated variant X");
        assert!(matches!(E::from((a, a2)), E::Y(p, q) if p == a && q == a2));
""", "with #[from] on some variants, conversions build exactly the annotated variants (the un-annotated twin with the same type is not chosen)"))
    out.append(enum_shape("skip", "    X(A),\n    #[from(skip)]\n    Skipped(A),\n    #[from(ignore)]\n    Ignored(B),\n    Y(B),",
                          """        let a = A(kani::any()); let b = B(kani::any());
        assert!(matches!(E::from(a), E::X(p) if p == a));
        assert!(matches!(E::from(b), E::Y(p) if p == b));
""", "skipped / ignored variants are never the target of a conversion"))
    out.append(enum_shape("explicit_late", "    Auto(B),\n    AutoPair(B, A),\n    #[from]\n    X(A),\n    Unit,\n    AutoNamed { x: TA },",
                          """        let a = A(kani::any());
        assert!(matches!(E::from(a), E::X(p) if p == a));
        // absence of impls: rustc's trait resolution, evaluated here
        assert!(has_from!(E, A), "From<A> must exist for the annotated variant");
        assert!(!has_from!(E, B), "an un-annotated variant declared BEFORE the first #[from] variant must get no impl");
        assert!(!has_from!(E, (B, A)), "an un-annotated variant declared BEFORE the first #[from] variant must get no impl");
        assert!(!has_from!(E, TA), "an un-annotated variant declared AFTER a #[from] variant must get no impl");
        assert!(!has_from!(E, ()), "unit variants get no impl");
""", "once any variant carries #[from], no other variant gets an impl, wherever it is declared (impl absence decided by rustc's trait resolution)"))
    out.append(enum_shape("explicit_same_type_first", "    NotDerived(A),\n    #[from]\n    X(A),\n    AlsoNot(A),",
                          """        let a = A(kani::any());
        assert!(matches!(E::from(a), E::X(p) if p == a), "From<A> must build the annotated variant (an extra impl for a twin would not even compile)");
""", "an un-annotated twin of the same type before and after the annotated variant gets no (conflicting) impl"))
    out.append(enum_shape("skip_absent", "    X(A),\n    #[from(skip)]\n    Skipped(B),\n    #[from(ignore)]\n    Ignored(TA, TB),\n    U,\n    E0(),\n    N0 {},",
                          """        let a = A(kani::any());
        assert!(matches!(E::from(a), E::X(p) if p == a));
        assert!(!has_from!(E, B) && !has_from!(E, (TA, TB)), "skipped / ignored variants get no impl");
        assert!(!has_from!(E, ()), "unit and empty variants get no impl");
""", "skipped, ignored, unit and empty variants get no impl (decided by rustc's trait resolution)"))
    out.append(enum_shape("typed_forward", "    #[from(SA, A)]\n    X(A),\n    #[from(forward)]\n    Y { x: B },\n    #[from((SA, SB))]\n    P(A, B),",
                          """        let sa = SA(kani::any()); let sb = SB(kani::any()); let a = A(kani::any());
        let c0 = calls();
        assert!(matches!(E::from(sa), E::X(p) if p == A::from(sa)), "#[from(SA)] must convert through A::from");
        assert!(calls()[0] == c0[0] + 2, "exactly one From::from per field (second call is the oracle's)");
        assert!(matches!(E::from(a), E::X(p) if p == a));
        assert!(matches!(E::from(sb), E::Y { x } if x == B::from(sb)), "forward must use the field's own From");
        assert!(matches!(E::from((sa, sb)), E::P(p, q) if p == A::from(sa) && q == B::from(sb)));
""", "variant-level #[from(types)] / #[from(forward)] apply the field type's own From, one call per field"))
    return out


def into_impl_set_shape():
    """Repeated `#[into(..)]` attributes: the set of generated impls is exactly one per listed reference kind - presence AND absence,
    decided by rustc's trait resolution (has_from!) and evaluated as concrete assertions."""
    D = "#[derive(Clone, Copy, PartialEq, Debug, derive_more::Into)]\n"
    decl = (D + "#[into(owned)]\n#[into(ref)]\npub struct OR(pub A, pub B);\n" +
            D + "#[into(owned)]\n#[into(ref_mut)]\npub struct OM { pub a: A, pub b: B }\n" +
            D + "#[into(ref)]\n#[into(ref_mut)]\npub struct RM(pub A, pub B);\n" +
            D + "#[into(ref_mut)]\n#[into(ref)]\npub struct MR(pub A);\n" +
            D + "#[into(ref)]\npub struct R(pub A, pub B);\n" +
            D + "pub struct FL(#[into(owned)] #[into(ref)] pub A, pub B);")
    src = """    #[kani::proof]
    fn into_impls_are_exactly_the_listed_kinds() {
        assert!(has_from!((A, B), OR) && has_from!((&'static A, &'static B), &'static OR), "#[into(owned)] #[into(ref)]: both listed kinds must exist");
        assert!(!has_from!((&'static mut A, &'static mut B), &'static mut OR), "#[into(owned)] #[into(ref)]: nobody asked for the &mut impl");
        assert!(has_from!((A, B), OM) && has_from!((&'static mut A, &'static mut B), &'static mut OM), "#[into(owned)] #[into(ref_mut)]: both listed kinds must exist");
        assert!(!has_from!((&'static A, &'static B), &'static OM), "#[into(owned)] #[into(ref_mut)]: nobody asked for the & impl");
        assert!(has_from!((&'static A, &'static B), &'static RM) && has_from!((&'static mut A, &'static mut B), &'static mut RM));
        assert!(!has_from!((A, B), RM), "#[into(ref)] #[into(ref_mut)]: no owned impl");
        assert!(has_from!(&'static A, &'static MR) && has_from!(&'static mut A, &'static mut MR) && !has_from!(A, MR));
        assert!(has_from!((&'static A, &'static B), &'static R) && !has_from!((A, B), R) && !has_from!((&'static mut A, &'static mut B), &'static mut R));
        assert!(has_from!(A, FL) && has_from!(&'static A, &'static FL) && !has_from!(&'static mut A, &'static mut FL), "field-level repeated attributes");
        let a = A(kani::any());
        let b = B(kani::any());
        let s = OR(a, b);
        let (ra, rb): (&A, &B) = (&s).into();
        assert!(ptr::eq(ra, &s.0) && ptr::eq(rb, &s.1));
        kani::cover!(true, "reach end");
    }
"""
    hs = [Harness("into_impls_are_exactly_the_listed_kinds", "field values free u16 (the impl-set assertions are concrete: rustc's trait resolution)", covers=1,
                  asserts="for repeated #[into(..)] attributes in every order: an impl exists for exactly the listed kinds (owned / ref / ref_mut), on struct and on field level")]
    return Shape("c08_into_impl_set_repeated_attributes", module(decl, src), hs, decl.replace("\n", " "),
                 exercises=["impl/src/into.rs::ConversionsAttribute::merge_attrs", "impl/src/into.rs::Expansion"])


def into_typed_groups_shape():
    """Several `owned(..)` / `ref(..)` / `ref_mut(..)` groups of the SAME kind inside one attribute: one impl per listed type of every group
    (seed C08-into-same-kind-group-replaces-earlier kept only the last group of a kind)."""
    D = "#[derive(Clone, Copy, PartialEq, Debug, derive_more::Into)]\n"
    decl = (D + "#[into(owned(TA), owned(A))]\npub struct G1(pub A);\n" +
            D + "#[into(owned((TA, TB)), ref, owned((A, B)))]\npub struct G2(pub A, pub B);\n" +
            D + "#[into(ref(A), ref_mut(A), ref(TA2))]\npub struct G3 { pub a: A }\n" +
            D + "pub struct G4(#[into(owned(TA), owned(A))] pub A, pub B);\n" +
            "#[derive(Clone, Copy, PartialEq, Debug)]\npub struct TA2(pub u16);\nimpl<'a> From<&'a A> for TA2 { fn from(a: &'a A) -> TA2 { TA2(a.0) } }\n"
            "impl<'a> From<&'a A> for &'a TA2 { fn from(a: &'a A) -> &'a TA2 { unsafe { &*(a as *const A as *const TA2) } } }")
    src = """    #[kani::proof]
    fn every_group_of_a_kind_generates_its_impls() {
        assert!(has_from!(TA, G1) && has_from!(A, G1), "#[into(owned(TA), owned(A))]: one impl per listed type of BOTH groups");
        assert!(has_from!((TA, TB), G2) && has_from!((A, B), G2) && has_from!((&'static A, &'static B), &'static G2), "two owned groups around a bare ref");
        assert!(!has_from!((&'static mut A, &'static mut B), &'static mut G2));
        assert!(has_from!(&'static A, &'static G3) && has_from!(&'static mut A, &'static mut G3) && has_from!(&'static TA2, &'static G3), "two ref groups around a ref_mut group");
        assert!(has_from!(TA, G4) && has_from!(A, G4), "field level");
        let a = A(kani::any());
        let b = B(kani::any());
        let t: TA = G1(a).into();
        let o: A = G1(a).into();
        assert!(t == TA::from(a) && o == a);
        let (ta, tb): (TA, TB) = G2(a, b).into();
        let (oa, ob): (A, B) = G2(a, b).into();
        assert!(ta == TA::from(a) && tb == TB::from(b) && oa == a && ob == b);
        let t4: TA = G4(a, b).into();
        assert!(t4 == TA::from(a));
        kani::cover!(true, "reach end");
    }
"""
    hs = [Harness("every_group_of_a_kind_generates_its_impls", "field values free u16 (the impl-set assertions are concrete: rustc's trait resolution)", covers=1,
                  asserts="with several groups of one kind in one #[into(..)], an impl exists for every listed type of every group, and converts the fields")]
    return Shape("c08_into_impl_set_typed_groups", module(decl, src), hs, decl.replace("\n", " "),
                 exercises=["impl/src/into.rs::ConversionsAttribute::parse (parse_inner)", "impl/src/into.rs::Expansion"])


def into_field_only_shape():
    """impl/doc/into.md, "Fields": once a field carries its own conversion the whole-struct tuple conversion is generated only if the struct has an
    attribute of its own - also when that field is at the same time `#[into(skip)]`ped from the tuple (seed
    C08-skipped-field-conversion-ignored-for-tuple-decision generated the tuple impl of the remaining fields anyway)."""
    D = "#[derive(Clone, Copy, PartialEq, Debug, derive_more::Into)]\n"
    decl = (D + "pub struct N1 { #[into(ref)] #[into(skip)] pub a: A, pub b: B }\n" +
            D + "pub struct N2(#[into(skip)] #[into] pub A, pub B, pub B);\n" +
            D + "pub struct N3 { pub a: A, #[into] pub b: B }\n" +
            D + "pub struct N4 { #[into(ref)] pub a: A, pub b: B }\n" +
            D + "pub struct N5(#[into(ref_mut(A))] pub A, pub B);\n" +
            D + "#[into]\npub struct W1 { #[into(ref)] #[into(skip)] pub a: A, pub b: B }")
    src = """    #[kani::proof]
    fn no_tuple_conversion_unless_the_struct_asks_for_it() {
        assert!(has_from!(&'static A, &'static N1), "the field's own #[into(ref)]");
        assert!(!has_from!(B, N1) && !has_from!((A, B), N1), "N1: a field has its own conversion and the struct has no attribute: no whole-struct conversion");
        assert!(has_from!(A, N2) && !has_from!((B, B), N2) && !has_from!((A, B, B), N2), "N2: only the field's own conversion");
        assert!(has_from!(B, N3) && !has_from!((A, B), N3), "N3: only the field's own conversion");
        assert!(has_from!(&'static A, &'static N4) && !has_from!((A, B), N4) && !has_from!((&'static A, &'static B), &'static N4), "N4: a reference-only field conversion suppresses the whole-struct conversion as well");
        assert!(has_from!(&'static mut A, &'static mut N5) && !has_from!((A, B), N5), "N5: ref_mut(Ty) on a field, no struct attribute");
        assert!(has_from!(B, W1) && has_from!(&'static A, &'static W1) && !has_from!((A, B), W1), "W1: with a struct-level #[into] the tuple of the non-skipped fields exists");
        let a = A(kani::any());
        let b = B(kani::any());
        let n = N1 { a, b };
        let r: &A = (&n).into();
        assert!(ptr::eq(r, &n.a));
        let w: B = W1 { a, b }.into();
        assert!(w == b);
        kani::cover!(true, "reach end");
    }
"""
    hs = [Harness("no_tuple_conversion_unless_the_struct_asks_for_it", "field values free u16 (the impl-set assertions are concrete: rustc's trait resolution)", covers=1,
                  asserts="field-level conversions exist, the whole-struct tuple conversion exists exactly when the struct has its own #[into] attribute")]
    return Shape("c08_into_impl_set_field_only", module(decl, src), hs, decl.replace("\n", " "),
                 exercises=["impl/src/into.rs::expand (struct_attr default)", "impl/src/into.rs::Expansion"])


ABSENT_IMPLS = [
    ("unannotated_variant_after_explicit", "no From for an un-annotated variant once a variant carries #[from]",
     "#[derive(derive_more::From)] pub enum E { #[from] A(u8), B(u16) } pub fn f() -> E { E::from(1u16) }"),
    ("unannotated_after_types", "no From for an un-annotated variant once a variant carries #[from(types)]",
     "#[derive(derive_more::From)] pub enum E { #[from(u8)] A(u32), B(u16) } pub fn f() -> E { E::from(1u16) }"),
    ("unannotated_after_forward", "no From for an un-annotated variant once a variant carries #[from(forward)]",
     "#[derive(derive_more::From)] pub enum E { #[from(forward)] A(u32), B(i16) } pub fn f() -> E { E::from(1i16) }"),
    ("unannotated_after_annotated_unit_variant", "an annotated FIELD-LESS variant switches the enum to opt-in as well",
     "#[derive(derive_more::From)] pub enum E { #[from] Nothing, Number(i32) } pub fn f() -> E { E::from(1i32) }"),
    ("unannotated_after_annotated_empty_tuple_variant", "an annotated empty tuple variant switches the enum to opt-in as well",
     "#[derive(derive_more::From)] pub enum E { Number(i32), #[from] Nothing(), Pair { a: u8, b: u8 } } pub fn f() -> E { E::from((1u8, 2u8)) }"),
    ("skipped_variant", "no From for a #[from(skip)] variant",
     "#[derive(derive_more::From)] pub enum E { A(u8), #[from(skip)] B(u16) } pub fn f() -> E { E::from(1u16) }"),
    ("ignored_variant", "no From for a #[from(ignore)] variant",
     "#[derive(derive_more::From)] pub enum E { A(u8), #[from(ignore)] B(u16) } pub fn f() -> E { E::from(1u16) }"),
    ("unit_variant", "no From<()> for a unit variant without attribute",
     "#[derive(derive_more::From)] pub enum E { A(u8), U } pub fn f() -> E { E::from(()) }"),
    ("from_types_no_plain", "#[from(u8)] generates From<u8> only, not From<field type>",
     "#[derive(derive_more::From)] #[from(u8)] pub struct S(u32); pub fn f() -> S { S::from(1u32) }"),
    ("into_skipped_field_in_tuple", "a #[into(skip)] field is not part of the tuple",
     "#[derive(derive_more::Into)] pub struct S { a: u8, #[into(skip)] b: u16 } pub fn f(s: S) -> (u8, u16) { s.into() }"),
    ("into_only_ref_listed", "#[into(ref)] generates the shared-reference impl only",
     "#[derive(derive_more::Into)] #[into(ref)] pub struct S(u8); pub fn f(s: S) -> u8 { s.into() }"),
    ("into_only_owned_by_default", "without attribute only the owned impl exists",
     "#[derive(derive_more::Into)] pub struct S(u8); pub fn f(s: &S) -> &u8 { s.into() }"),
    ("into_types_no_plain", "#[into(u16)] generates Into<u16> only",
     "#[derive(derive_more::Into)] #[into(u16)] pub struct S(u8); pub fn f(s: S) -> u8 { s.into() }"),
]


def absent_impl_shapes():
    """'the set of generated impls is exactly the documented one': a call of an impl that must not exist has to be rejected (rustc's verdict)."""
    from ..shapes import reject_shape
    return [reject_shape("c08", n, prog, why, ["impl/src/from.rs::expand", "impl/src/into.rs::expand"]) for n, why, prog in ABSENT_IMPLS]


def shapes(tier):
    out = []
    out.append(into_impl_set_shape())
    out.append(into_typed_groups_shape())
    out.append(into_field_only_shape())
    out.append(plain_shape(St("unit", [])))
    for kind in ("tuple", "named"):
        for n in (0, 1, 2, 3):
            sh = plain_shape(St(kind, FIELD_SETS[n]))
            sh.quick = (kind, n) in (("tuple", 3), ("named", 2), ("tuple", 0), ("named", 1))
            out.append(sh)
        for n in (2, 3):
            sh = plain_shape(St(kind, SAME_TYPED[n]), "_same_typed")
            sh.quick = (kind, n) in (("tuple", 2), ("named", 3))
            out.append(sh)
    for kind in ("tuple", "named"):
        for skip in ([0], [1], [2], [0, 1], [0, 2], [1, 2], [0, 1, 2]):
            sh = into_skip_shape(kind, skip)
            sh.quick = (kind == "tuple" and skip in ([0], [1, 2])) or (kind == "named" and skip in ([1], [0, 2]))
            out.append(sh)
        out.append(typed_shape(kind))
    out.append(field_level_into_shape())
    out.append(field_skip_order_shape())
    out += enum_shapes()
    out += absent_impl_shapes()
    # the whole grid costs ~15 s: quick and thorough run all of it
    return out


DESCRIPTION = {
    "grid": "unit/tuple/named structs with 0-3 fields (distinct-typed and same-typed), From + Into(owned, ref, ref_mut) + Constructor; "
            "#[into(skip)]/#[into(ignore)] on every subset of 3 positions; #[from(types)], #[into(types)], repeated #[into], "
            "#[from(forward)] on 1- and 2-field structs; field-level #[into]; enums with plain, #[from]-annotated, skipped, typed and "
            "forwarded variants",
    "symbolic": "every field / component value (free u16), the value written through &mut",
    "oracle": "the components themselves, pointer identity with the fields, the field types' own From impls (call-counted)",
    "not_covered": ["'the set of generated impls is exactly the documented one': presence is implied (the harness calls every documented "
                    "impl); absence is a trait-resolution fact decided by rustc, not by a solver - the enum shapes explicit_late, "
                    "explicit_same_type_first and skip_absent evaluate rustc's answer (autoref probe, or a conflicting-impl compile error) "
                    "as concrete assertions, for those shapes only"],
}
