"""C09 - Error::source returns exactly the field the documented rules select.

Layout grammar: <= 3 fields x {none, source, not(source), ignore} x (named: which field, if any, is called `source`)
x struct / enum variant.  All fields have the *same* error type, so binding the wrong field type-checks and is only
visible through the address of what `source()` returns - which is what the harness compares."""
import itertools

from ..shapes import Shape, Harness

CRATE_ATTRS = ["#![feature(error_generic_member_access)]"]

SUPPORT = """use core::fmt;

/// the error type of every field
#[derive(Debug, Clone, Copy, PartialEq, Eq)]
pub struct Er(pub u8);
impl fmt::Display for Er { fn fmt(&self, f: &mut fmt::Formatter<'_>) -> fmt::Result { f.write_str("Er") } }
impl std::error::Error for Er {}

#[macro_export]
macro_rules! plain_display {
    ($($t:ty),*) => { $( impl core::fmt::Display for $t { fn fmt(&self, f: &mut core::fmt::Formatter<'_>) -> core::fmt::Result { f.write_str("x") } } )* };
}

/// address of the object a `source()` result points at
pub fn addr_of_dyn(e: &(dyn std::error::Error + 'static)) -> usize { e as *const dyn std::error::Error as *const () as usize }
pub fn addr_of<T>(t: &T) -> usize { t as *const T as usize }
"""

HEAD = "#![allow(dead_code, unused, clippy::all)]\nuse crate::support::*;\nuse crate::plain_display;\nuse std::error::Error as _;\n\n"

ATTRS = {"none": "", "source": "#[error(source)] ", "not_source": "#[error(not(source))] ", "ignore": "#[error(ignore)] "}
ATTR_TAG = {"none": "n", "source": "s", "not_source": "x", "ignore": "i"}


def select(named, attrs, names):
    """The documented selection rule restated.  Returns ('ok', index or None) or ('ambiguous', reason)."""
    n = len(attrs)
    enabled = [i for i in range(n) if attrs[i] != "ignore"]
    explicit = [i for i in enabled if attrs[i] == "source"]
    if len(explicit) > 1:
        return ("ambiguous", "several #[error(source)]")
    if explicit:
        return ("ok", explicit[0])
    if named:
        inferred = [i for i in enabled if attrs[i] == "none" and names[i] == "source"]
    else:
        # the sole field of a tuple type (no Backtrace-typed fields in this part of the grid)
        inferred = [i for i in enabled if attrs[i] == "none" and n == 1]
    if len(inferred) > 1:
        return ("ambiguous", "conflicting inferred fields")
    return ("ok", inferred[0] if inferred else None)


def field_names(n, src_pos):
    base = ["a", "b", "c"]
    return ["source" if i == src_pos else base[i] for i in range(n)]


def layout_tag(named, attrs, names):
    t = ("n" if named else "t") + "".join(ATTR_TAG[a] for a in attrs)
    if named:
        sp = [i for i, nm in enumerate(names) if nm == "source"]
        t += "_src%d" % sp[0] if sp else "_nosrc"
    return t


def fields_decl(named, attrs, names, ty="Er"):
    if named:
        return "{ %s }" % ", ".join("%spub %s: %s" % (ATTRS[a], nm, ty) for a, nm in zip(attrs, names))
    return "(%s)" % ", ".join("%spub %s" % (ATTRS[a], ty) for a in attrs)


def variant_fields_decl(named, attrs, names, ty="Er"):
    if named:
        return "{ %s }" % ", ".join("%s%s: %s" % (ATTRS[a], nm, ty) for a, nm in zip(attrs, names))
    return "(%s)" % ", ".join("%s%s" % (ATTRS[a], ty) for a in attrs)


def ctor(prefix, named, n, names):
    vals = ["Er(kani::any())"] * n
    if named:
        return "%s { %s }" % (prefix, ", ".join("%s: %s" % (nm, v) for nm, v in zip(names, vals)))
    return "%s(%s)" % (prefix, ", ".join(vals))


def acc(named, names, i):
    return names[i] if named else str(i)


def expect_src(got, expected_expr, what):
    """Rust asserting that `got` (Option<&dyn Error>) is exactly the object at address `expected_expr` (or None)."""
    if expected_expr is None:
        return "assert!(%s.is_none(), \"source() is Some(..) but the documented rules select no field (%s)\");" % (got, what)
    return ("match %s { Some(e) => assert!(addr_of_dyn(e) == %s, \"source() is not the selected field (%s)\"), "
            "None => assert!(false, \"source() is None but the documented rules select a field (%s)\") }" % (got, expected_expr, what, what))


def layout_shape(named, attrs, names, quick):
    n = len(attrs)
    verdict, sel = select(named, attrs, names)
    assert verdict == "ok"
    tag = layout_tag(named, attrs, names)
    what = "layout %s: %s" % (tag, "field %s" % acc(named, names, sel) if sel is not None else "none")
    sdecl = "#[derive(Debug, derive_more::Error)]\npub struct S%s%s" % (fields_decl(named, attrs, names), "" if named else ";")
    # enum: the layout as one variant among others; a second copy of the layout in an ignored variant
    edecl = ("#[derive(Debug, derive_more::Error)]\npub enum E {\n    First(Er),\n    Target%s,\n    #[error(ignore)]\n    Ign%s,\n    Unit,\n    Last { source: Er, other: Er },\n}"
             % (variant_fields_decl(named, attrs, names), variant_fields_decl(named, ["none" if a == "ignore" else a for a in attrs], names)))
    decl = sdecl + "\n\n" + edecl + "\nplain_display!(S, E);"
    s_expected = None if sel is None else "addr_of(&s.%s)" % acc(named, names, sel)
    # pattern binding the selected field of Target as `t`
    if named:
        tpat = "E::Target { %s }" % ", ".join(("%s: t" % nm) if i == sel else ("%s: _" % nm) for i, nm in enumerate(names))
    else:
        tpat = "E::Target(%s)" % ", ".join("t" if i == sel else "_" for i in range(n))
    src = """    #[kani::proof]
    fn struct_source_is_the_selected_field() {
        let s = %(sctor)s;
        let got = s.source();
        %(s_assert)s
        kani::cover!(true, "reach end");
    }
    #[kani::proof]
    fn variant_source_is_the_selected_field() {
        let v = match kani::any::<u8>() %% 5 {
            0 => E::First(Er(kani::any())),
            1 => %(tctor)s,
            2 => %(ictor)s,
            3 => E::Unit,
            _ => E::Last { source: Er(kani::any()), other: Er(kani::any()) },
        };
        let got = v.source();
        match &v {
            E::First(f) => { %(first)s }
            %(tpat)s => { %(target)s }
            E::Ign%(iwild)s => { %(ign)s }
            E::Unit => { %(unit)s }
            E::Last { source, .. } => { %(last)s }
        }
        kani::cover!(matches!(v, E::Target%(iwild)s), "reach Target");
        kani::cover!(matches!(v, E::Ign%(iwild)s), "reach Ign");
    }
""" % dict(sctor=ctor("S", named, n, names), s_assert=expect_src("got", s_expected, what),
           tctor=ctor("E::Target", named, n, names), ictor=ctor("E::Ign", named, n, names),
           first=expect_src("got", "addr_of(f)", "single-field tuple variant"),
           tpat=tpat, target=expect_src("got", None if sel is None else "addr_of(t)", what),
           iwild="{..}" if named else "(..)", ign=expect_src("got", None, "ignored variant"),
           unit=expect_src("got", None, "unit variant"), last=expect_src("got", "addr_of(source)", "field named source"))
    hs = [Harness("struct_source_is_the_selected_field", "payload of every field symbolic (the addresses are what is compared)", covers=1,
                  asserts="source() is None, or its data pointer equals the address of the field the documented rules select"),
          Harness("variant_source_is_the_selected_field", "the variant (5 ways) and every payload symbolic", covers=2,
                  asserts="per variant: source() points at exactly the selected field; None for ignored and unit variants")]
    return Shape("c09_" + tag, HEAD + decl + "\n\n#[cfg(kani)]\nmod proofs {\n    use super::*;\n" + src + "}\n", hs,
                 (sdecl + " " + edecl).replace("\n", " "),
                 exercises=["impl/src/error.rs::expand", "impl/src/error.rs::parse_fields", "impl/src/error.rs::render_source_as_enum_variant_match_arm",
                            "impl/src/utils.rs::MultiFieldData::matcher"], quick=quick)


def special_shapes():
    out = []
    # generic source, boxed dyn source, backtrace-typed second field
    decl = ("#[derive(Debug, derive_more::Error)]\npub struct G<T>(pub T);\n"
            "#[derive(Debug, derive_more::Error)]\npub struct GN<T> { pub first: u8, pub source: T }\n"
            "#[derive(Debug, derive_more::Error)]\npub enum GE<T, U> { A(T), B { other: u8, #[error(source)] cause: U }, C(#[error(not(source))] T) }\n"
            "impl<T> core::fmt::Display for G<T> { fn fmt(&self, f: &mut core::fmt::Formatter<'_>) -> core::fmt::Result { f.write_str(\"x\") } }\n"
            "impl<T> core::fmt::Display for GN<T> { fn fmt(&self, f: &mut core::fmt::Formatter<'_>) -> core::fmt::Result { f.write_str(\"x\") } }\n"
            "impl<T, U> core::fmt::Display for GE<T, U> { fn fmt(&self, f: &mut core::fmt::Formatter<'_>) -> core::fmt::Result { f.write_str(\"x\") } }")
    src = """    #[kani::proof]
    fn generic_sources() {
        let g = G(Er(kani::any()));
        %s
        let gn = GN { first: kani::any(), source: Er(kani::any()) };
        %s
        let ge: GE<Er, Er> = match kani::any::<u8>() %% 3 { 0 => GE::A(Er(kani::any())), 1 => GE::B { other: kani::any(), cause: Er(kani::any()) }, _ => GE::C(Er(kani::any())) };
        let got = ge.source();
        match &ge {
            GE::A(t) => { %s }
            GE::B { cause, .. } => { %s }
            GE::C(_) => { %s }
        }
        kani::cover!(matches!(ge, GE::B { .. }), "reach B");
    }
""" % (expect_src("g.source()", "addr_of(&g.0)", "generic sole tuple field"),
       expect_src("gn.source()", "addr_of(&gn.source)", "generic field named source"),
       expect_src("got", "addr_of(t)", "generic variant A"), expect_src("got", "addr_of(cause)", "explicit source in generic variant"),
       expect_src("got", None, "not(source)"))
    out.append(Shape("c09_generic", HEAD + decl + "\n\n#[cfg(kani)]\nmod proofs {\n    use super::*;\n" + src + "}\n",
                     [Harness("generic_sources", "payloads and variant symbolic", covers=1,
                              asserts="generic-parameter sources: source() points at exactly the selected field")],
                     decl.replace("\n", " "), exercises=["impl/src/error.rs::expand (generic bounds)"]))
    decl = ("#[derive(Debug, derive_more::Error)]\npub struct Bx { pub other: Er, pub source: Box<dyn std::error::Error + Send + Sync + 'static> }\n"
            "#[derive(Debug, derive_more::Error)]\npub struct Bt(pub Box<dyn std::error::Error + 'static>);\nplain_display!(Bx, Bt);")
    src = """    #[kani::proof]
    fn boxed_dyn_source_is_the_boxed_error() {
        let b = Bx { other: Er(kani::any()), source: Box::new(Er(kani::any())) };
        let held = &*b.source as *const (dyn std::error::Error + Send + Sync) as *const () as usize;
        match b.source() { Some(e) => assert!(addr_of_dyn(e) == held, "source() of a boxed dyn field is not the error it holds"), None => assert!(false, "source() is None") }
        let t = Bt(Box::new(Er(kani::any())));
        let held = &*t.0 as *const dyn std::error::Error as *const () as usize;
        match t.source() { Some(e) => assert!(addr_of_dyn(e) == held), None => assert!(false, "source() is None") }
        kani::cover!(true, "reach end");
    }
"""
    out.append(Shape("c09_boxed_dyn", HEAD + decl + "\n\n#[cfg(kani)]\nmod proofs {\n    use super::*;\n" + src + "}\n",
                     [Harness("boxed_dyn_source_is_the_boxed_error", "payloads symbolic", covers=1,
                              asserts="for Box<dyn Error ..> fields source() is the error held by the box")],
                     decl.replace("\n", " "), exercises=["impl/src/error.rs::render_some", "src/vendor/thiserror/aserror.rs::AsDynError"]))
    return out


def backtrace_shapes():
    """two-field tuples where one field is a `Backtrace`: the other field is the source (needs the nightly-only provide API)"""
    decl = ("use std::backtrace::Backtrace;\n"
            "#[derive(Debug, derive_more::Error)]\npub struct EB(pub Er, pub Backtrace);\n"
            "#[derive(Debug, derive_more::Error)]\npub struct BE(pub Backtrace, pub Er);\n"
            "#[derive(Debug, derive_more::Error)]\npub struct NotSrc(#[error(not(source))] pub Er, pub Backtrace);\n"
            "#[derive(Debug, derive_more::Error)]\npub enum V { X(Er, Backtrace), Y(Backtrace, Er), Z { source: Er, backtrace: Backtrace, other: Er } }\n"
            "plain_display!(EB, BE, NotSrc, V);")
    src = """    #[kani::proof]
    fn the_non_backtrace_field_of_a_pair_is_the_source() {
        let a = EB(Er(kani::any()), Backtrace::disabled());
        %s
        let b = BE(Backtrace::disabled(), Er(kani::any()));
        %s
        let c = NotSrc(Er(kani::any()), Backtrace::disabled());
        %s
        let v = match kani::any::<u8>() %% 3 { 0 => V::X(Er(kani::any()), Backtrace::disabled()), 1 => V::Y(Backtrace::disabled(), Er(kani::any())),
                                               _ => V::Z { source: Er(kani::any()), backtrace: Backtrace::disabled(), other: Er(kani::any()) } };
        let got = v.source();
        match &v {
            V::X(t, _) => { %s }
            V::Y(_, t) => { %s }
            V::Z { source, .. } => { %s }
        }
        core::mem::forget((a, b, c, v));
        kani::cover!(true, "reach end");
    }
""" % (expect_src("a.source()", "addr_of(&a.0)", "(Er, Backtrace)"), expect_src("b.source()", "addr_of(&b.1)", "(Backtrace, Er)"),
       expect_src("c.source()", None, "(not(source) Er, Backtrace)"), expect_src("got", "addr_of(t)", "variant (Er, Backtrace)"),
       expect_src("got", "addr_of(t)", "variant (Backtrace, Er)"), expect_src("got", "addr_of(source)", "named source next to backtrace"))
    decl2 = ("use std::backtrace::Backtrace;\n"
             "#[derive(Debug, derive_more::Error)]\npub struct IgB(#[error(ignore)] pub Er, pub Backtrace);\n"
             "#[derive(Debug, derive_more::Error)]\npub struct BIg(pub Backtrace, #[error(ignore)] pub Er);\n"
             "#[derive(Debug, derive_more::Error)]\npub enum W { P(#[error(ignore)] Er, Backtrace), Q(Er) }\n"
             "plain_display!(IgB, BIg, W);")
    src2 = """    #[kani::proof]
    fn an_ignored_candidate_next_to_a_backtrace_is_not_the_source() {
        let a = IgB(Er(kani::any()), Backtrace::disabled());
        %s
        let b = BIg(Backtrace::disabled(), Er(kani::any()));
        %s
        let w = if kani::any() { W::P(Er(kani::any()), Backtrace::disabled()) } else { W::Q(Er(kani::any())) };
        let got = w.source();
        match &w {
            W::P(..) => { %s }
            W::Q(t) => { %s }
        }
        core::mem::forget((a, b, w));
        kani::cover!(true, "reach end");
    }
""" % (expect_src("a.source()", None, "(ignore Er, Backtrace)"), expect_src("b.source()", None, "(Backtrace, ignore Er)"),
       expect_src("got", None, "variant (ignore Er, Backtrace)"), expect_src("got", "addr_of(t)", "single-field variant"))
    extra = Shape("c09_backtrace_pair_with_ignored_candidate", HEAD + decl2 + "\n\n#[cfg(kani)]\nmod proofs {\n    use super::*;\n" + src2 + "}\n",
                  [Harness("an_ignored_candidate_next_to_a_backtrace_is_not_the_source", "payloads and variant symbolic", covers=1,
                           asserts="(#[error(ignore)] E, Backtrace): the derive is accepted and source() is None")],
                  decl2.replace("\n", " "), exercises=["impl/src/error.rs::infer_source_field"], quick=True, tags=["backtrace"])
    # a user's own error type that happens to be called `Backtrace`: for named fields the documented rule looks at the
    # field's *name* only; the type-based exclusion belongs to the tuple rule
    decl3 = ("pub mod mine {\n    use core::fmt;\n    #[derive(Debug, Clone, Copy, PartialEq, Eq)]\n    pub struct Backtrace(pub u8);\n"
             "    impl fmt::Display for Backtrace { fn fmt(&self, f: &mut fmt::Formatter<'_>) -> fmt::Result { f.write_str(\"b\") } }\n"
             "    impl std::error::Error for Backtrace {}\n}\nuse mine::Backtrace;\n"
             "#[derive(Debug, derive_more::Error)]\npub struct NamedSrc { #[error(not(backtrace))] pub source: Backtrace, pub other: Er }\n"
             "#[derive(Debug, derive_more::Error)]\npub struct QualSrc { pub other: Er, #[error(not(backtrace))] pub source: mine::Backtrace }\n"
             "#[derive(Debug, derive_more::Error)]\npub struct Explicit { #[error(source, not(backtrace))] pub cause: Backtrace, pub source: Er }\n"
             "#[derive(Debug, derive_more::Error)]\npub enum EV { A { #[error(not(backtrace))] source: Backtrace, x: Er }, B(Er) }\n"
             "plain_display!(NamedSrc, QualSrc, Explicit, EV);")
    src3 = """    #[kani::proof]
    fn a_named_source_field_of_a_type_called_backtrace_is_still_the_source() {
        let a = NamedSrc { source: Backtrace(kani::any()), other: Er(kani::any()) };
        %s
        let b = QualSrc { other: Er(kani::any()), source: Backtrace(kani::any()) };
        %s
        let c = Explicit { cause: Backtrace(kani::any()), source: Er(kani::any()) };
        %s
        let v = if kani::any() { EV::A { source: Backtrace(kani::any()), x: Er(kani::any()) } } else { EV::B(Er(kani::any())) };
        let got = v.source();
        match &v {
            EV::A { source, .. } => { %s }
            EV::B(t) => { %s }
        }
        kani::cover!(matches!(v, EV::A { .. }), "reach A");
    }
""" % (expect_src("a.source()", "addr_of(&a.source)", "named field `source` of a user type called Backtrace"),
       expect_src("b.source()", "addr_of(&b.source)", "named field `source` of type mine::Backtrace"),
       expect_src("c.source()", "addr_of(&c.cause)", "explicit #[error(source)] on a field of a type called Backtrace"),
       expect_src("got", "addr_of(source)", "variant field named source of a type called Backtrace"),
       expect_src("got", "addr_of(t)", "single-field variant"))
    extra2 = Shape("c09_backtrace_named_user_type", HEAD + decl3 + "\n\n#[cfg(kani)]\nmod proofs {\n    use super::*;\n" + src3 + "}\n",
                   [Harness("a_named_source_field_of_a_type_called_backtrace_is_still_the_source", "payloads and variant symbolic", covers=1,
                            asserts="for named fields the field called `source` is the source whatever its type is called")],
                   decl3.replace("\n", " "), exercises=["impl/src/error.rs::parse_fields (named)"], quick=True, tags=["backtrace"])
    return [extra, extra2, Shape("c09_backtrace_pairs", HEAD + decl + "\n\n#[cfg(kani)]\nmod proofs {\n    use super::*;\n" + src + "}\n",
                  [Harness("the_non_backtrace_field_of_a_pair_is_the_source", "payloads and variant symbolic", covers=1,
                           asserts="in a two-field tuple with a Backtrace-typed field the other field is the source, unless marked not(source)")],
                  decl.replace("\n", " "), exercises=["impl/src/error.rs::infer_source_field"], quick=True, tags=["backtrace"])]


def multi_param_shape():
    """Several parameters inside ONE #[error(..)] attribute, in both orders (every layout of the main grid writes a single parameter per attribute):
    an explicit `source` written after / before a `not(backtrace)` group still selects its field - also against a sibling *named* `source`."""
    decl = ("#[derive(Debug, derive_more::Error)]\npub struct NotFirst { pub source: Er, #[error(not(backtrace), source)] pub cause: Er }\n"
            "#[derive(Debug, derive_more::Error)]\npub struct NotLast { pub source: Er, #[error(source, not(backtrace))] pub cause: Er }\n"
            "#[derive(Debug, derive_more::Error)]\npub struct Tup(pub Er, #[error(not(backtrace), source)] pub Er);\n"
            "#[derive(Debug, derive_more::Error)]\npub enum EV { A { source: Er, #[error(not(backtrace), source)] cause: Er }, B(Er, #[error(source, not(backtrace))] Er), "
            "C { #[error(not(source), not(backtrace))] source: Er } }\nplain_display!(NotFirst, NotLast, Tup, EV);")
    src = """    #[kani::proof]
    fn several_parameters_in_one_attribute() {
        let a = NotFirst { source: Er(kani::any()), cause: Er(kani::any()) };
        %s
        let b = NotLast { source: Er(kani::any()), cause: Er(kani::any()) };
        %s
        let t = Tup(Er(kani::any()), Er(kani::any()));
        %s
        let v = match kani::any::<u8>() %% 3 { 0 => EV::A { source: Er(kani::any()), cause: Er(kani::any()) }, 1 => EV::B(Er(kani::any()), Er(kani::any())), _ => EV::C { source: Er(kani::any()) } };
        let got = v.source();
        match &v {
            EV::A { cause, .. } => { %s }
            EV::B(_, t1) => { %s }
            EV::C { .. } => { %s }
        }
        kani::cover!(matches!(v, EV::B(..)), "reach B");
    }
""" % (expect_src("a.source()", "addr_of(&a.cause)", "`#[error(not(backtrace), source)]` next to a field named source"),
       expect_src("b.source()", "addr_of(&b.cause)", "`#[error(source, not(backtrace))]` next to a field named source"),
       expect_src("t.source()", "addr_of(&t.1)", "tuple field 1 marked `not(backtrace), source`"),
       expect_src("got", "addr_of(cause)", "variant A"), expect_src("got", "addr_of(t1)", "variant B"), expect_src("got", None, "`not(source), not(backtrace)` on a field named source"))
    return Shape("c09_several_parameters_in_one_attribute", HEAD + decl + "\n\n#[cfg(kani)]\nmod proofs {\n    use super::*;\n" + src + "}\n",
                 [Harness("several_parameters_in_one_attribute", "payloads and variant symbolic", covers=1,
                          asserts="parameters written after a `not(..)` group inside one attribute still count: the explicitly marked field is the source")],
                 decl.replace("\n", " "), exercises=["impl/src/utils.rs::parse_punctuated_nested_meta", "impl/src/error.rs::parse_fields"], quick=True)


def near_miss_names_shape():
    """Field names that merely resemble `source` / `backtrace` select nothing (seed C09-raw-prefix-trim-matches-rsource).  (Whether a field written
    `r#source` counts as "named source" is not fixed by the property - the pinned tree says no - and is not asserted either way.)"""
    decl = ("#[derive(Debug, derive_more::Error)]\npub struct Near { pub rsource: Er, pub sources: Er, pub resource: Er }\n"
            "#[derive(Debug, derive_more::Error)]\npub enum NE { A { rsource: Er, code: Er }, B { source_: Er }, C { source: Er, rrsource: Er } }\nplain_display!(Near, NE);")
    src = """    #[kani::proof]
    fn names_that_resemble_source() {
        let n = Near { rsource: Er(kani::any()), sources: Er(kani::any()), resource: Er(kani::any()) };
        %s
        let v = match kani::any::<u8>() %% 3 { 0 => NE::A { rsource: Er(kani::any()), code: Er(kani::any()) }, 1 => NE::B { source_: Er(kani::any()) }, _ => NE::C { source: Er(kani::any()), rrsource: Er(kani::any()) } };
        let got = v.source();
        match &v {
            NE::A { .. } => { %s }
            NE::B { .. } => { %s }
            NE::C { source, .. } => { %s }
        }
        kani::cover!(matches!(v, NE::C { .. }), "reach C");
    }
""" % (expect_src("n.source()", None, "fields named rsource / sources / resource"),
       expect_src("got", None, "variant field named rsource"), expect_src("got", None, "variant field named source_"),
       expect_src("got", "addr_of(source)", "variant field named source next to rrsource"))
    return Shape("c09_near_miss_field_names", HEAD + decl + "\n\n#[cfg(kani)]\nmod proofs {\n    use super::*;\n" + src + "}\n",
                 [Harness("names_that_resemble_source", "payloads and variant symbolic", covers=1,
                          asserts="only a field called exactly `source` is inferred as the source")],
                 decl.replace("\n", " "), exercises=["impl/src/error.rs::parse_fields (named)"], quick=True)


def all_layouts():
    for named in (False, True):
        for n in (1, 2, 3):
            for attrs in itertools.product(["none", "source", "not_source", "ignore"], repeat=n):
                src_positions = [None] + list(range(n)) if named else [None]
                for sp in src_positions:
                    names = field_names(n, sp)
                    verdict, _ = select(named, attrs, names)
                    yield named, list(attrs), names, verdict


def ambiguous_shapes():
    """'ambiguous selections are compile errors rather than arbitrary choices': every layout of the grammar the documented rules call ambiguous
    (several explicit #[error(source)] among the non-ignored fields), as a struct and as an enum variant, must not compile - rustc's verdict."""
    from ..shapes import reject_shape
    out = []
    for named, attrs, names, verdict in all_layouts():
        if verdict == "ok":
            continue
        tag = layout_tag(named, attrs, names)
        sdecl = "#[derive(Debug, derive_more::Error)] pub struct S%s%s" % (fields_decl(named, attrs, names, "crate::support::Er"), "" if named else ";")
        edecl = "#[derive(Debug, derive_more::Error)] pub enum E { First(crate::support::Er), Target%s }" % variant_fields_decl(named, attrs, names, "crate::support::Er")
        disp = " impl core::fmt::Display for %s { fn fmt(&self, f: &mut core::fmt::Formatter<'_>) -> core::fmt::Result { f.write_str(\"x\") } }"
        sh = reject_shape("c09", "ambiguous_struct_" + tag, sdecl + disp % "S", "ambiguous source selection", ["impl/src/error.rs::parse_fields"])
        sh.quick = True
        out.append(sh)
        sh = reject_shape("c09", "ambiguous_variant_" + tag, edecl + disp % "E", "ambiguous source selection", ["impl/src/error.rs::parse_fields"])
        sh.quick = True
        out.append(sh)
    return out


def shapes(tier):
    out, excluded = [], []
    k = 0
    for named, attrs, names, verdict in all_layouts():
        if verdict != "ok":
            excluded.append(layout_tag(named, attrs, names))
            continue
        k += 1
        n = len(attrs)
        # quick: every 1-field layout, every layout with an `ignore` before a later candidate, and a rotating sample
        ign_before = any(attrs[i] == "ignore" and any(a != "ignore" for a in attrs[i + 1:]) for i in range(n))
        quick = n == 1 or (ign_before and (k % 3 == 0 or n == 2)) or k % 11 == 0
        out.append(layout_shape(named, attrs, names, quick))
    out += special_shapes() + backtrace_shapes() + [multi_param_shape(), near_miss_names_shape()]
    out += ambiguous_shapes()
    shapes.excluded = excluded
    if tier == "quick":
        out = [s for s in out if s.quick]
    return out


DESCRIPTION = {
    "grid": "every assignment of {no attribute, source, not(source), ignore} to 1-3 fields, positional and named (named: no field or any "
            "one field called `source`), each as a struct and as an enum variant next to a single-field variant, an ignored variant with "
            "the same layout, a unit variant and a variant with a field named source; minus layouts the documented rules call ambiguous "
            "(several #[error(source)]); plus generic-parameter sources, Box<dyn Error> sources, two-field tuples with a Backtrace",
    "symbolic": "every field payload and the variant; what is compared is the address `source()` points at",
    "oracle": "vf/props/c09.py::select - the documented selection rule restated (explicit source, else field named source, else sole "
              "tuple field / the non-backtrace field of a pair; not(source) and ignore veto)",
    "not_covered": ["backtrace / provide() (nightly-only API) beyond its effect on source selection for pairs",
                    "'ambiguous selections are compile errors' (must-not-compile facts are rustc's verdict)",
                    "a two-field tuple whose Backtrace field is itself ignored (the documentation does not say which way it goes)"],
}
