"""Engine L on the decision functions of impl/src/fmt/mod.rs (vf/llsym/rust/tc/probe_tc.rs): `FmtAttribute::transparent_call` (C05: which
attributes are one bare placeholder to be delegated) and `FmtAttribute::placeholders_by_arg` / `contains_arg` (C07: which placeholders mention
`_variant`).  The functions are cut verbatim out of the working tree, run on a symbolic literal x a list of argument forms, and compared with the
documented rule restated over std's own reading of the literal (the pinned oracle of C03)."""
import json
import os
import time

from .. import common
from ..common import log

TC_ALPHABET = "{}:.*$01ab ?x<+#-^ep"
TC_N = {"quick": 4, "thorough": 5}
TC_DEEP = "{}:01ab ?x"
TC_DEEP_N = {"quick": 6, "thorough": 7}


def tc_cfg(*args):
    """args: (alias name or None, expression is a single identifier?, its name)"""
    c = len(args)
    for k, (alias, isid, name) in enumerate(args):
        a = (1 if alias is not None else 0) | ((1 if alias == "b" else 0) << 1) | ((1 if isid else 0) << 2) | ((1 if name == "b" else 0) << 3)
        c |= a << (2 + 4 * k)
    return c


TC_FORMS = [("no arguments", tc_cfg()), ("one identifier argument `a`", tc_cfg((None, True, "a"))), ("one expression argument", tc_cfg((None, False, "a"))),
            ("`a = <ident b>`", tc_cfg(("a", True, "b"))), ("`b = <expr>`", tc_cfg(("b", False, "a"))),
            ("two arguments `a, b`", tc_cfg((None, True, "a"), (None, True, "b"))), ("`a = <expr>, b`", tc_cfg(("a", False, "a"), (None, True, "b")))]
# for "which placeholders refer to `a`": the argument named / aliased in every position
BY_ARG_FORMS = [("no arguments", tc_cfg()), ("`a`", tc_cfg((None, True, "a"))), ("`b`", tc_cfg((None, True, "b"))), ("one expression", tc_cfg((None, False, "a"))),
                ("`b = a`", tc_cfg(("b", True, "a"))), ("`a = b`", tc_cfg(("a", True, "b"))), ("`a = <expr>`", tc_cfg(("a", False, "a"))),
                ("`b, a`", tc_cfg((None, True, "b"), (None, True, "a"))), ("`b = a, b`", tc_cfg(("b", True, "a"), (None, True, "b"))),
                ("`<expr>, b = a`", tc_cfg((None, False, "a"), ("b", True, "a")))]


def has_dot_without_precision(lit):
    """does the literal contain a placeholder with a `.` that is not followed by a precision (`{:.}`, `{a:.x}`)?  std reads it as "precision implied",
    derive_more's literal parser returns None for the whole literal: the open C03 finding `1/dot-without-precision`, which every function built on
    the parser inherits"""
    import re
    return any(re.search(r":[^{}]*\.[?xXobeEp]?\s*$", body) and not re.search(r"\.(\*|\d|[^\W\d]\w*\$)", body)
               for body in re.findall(r"\{([^{}]*)\}", lit.replace("{{", "").replace("}}", "")))


def tc_args_text(cfg):
    out = []
    for k in range(cfg & 3):
        a = (cfg >> (2 + 4 * k)) & 15
        e = ("ab"[(a >> 3) & 1]) if a & 4 else "x.y()"
        out.append((("ab"[(a >> 1) & 1] + " = ") if a & 1 else "") + e)
    return ", ".join(out)


def attr_text(lit, cfg):
    return "#[display(%s%s)]" % (json.dumps(lit), (", " + tc_args_text(cfg)) if cfg & 3 else "")


def run(prop, entry, forms, tier, kf, fail_text, classify, what, functions, n_full=None, n_deep=None, alphabet=None, deep_alphabet=None, render=None):
    """-> dict(violations, known, inconclusive, coverage) for krun's extra_pass hook"""
    import multiprocessing
    import z3
    from ..llsym import build, driver, native
    from ..llsym import engine as E
    out = {"violations": [], "known": [], "inconclusive": [], "coverage": {}}
    t0 = time.time()
    scratch = common.scratch_dir("%s-decision" % prop)
    try:
        b = build.build_tc_wrapper(scratch)
    except RuntimeError as e:
        out["inconclusive"].append("decision-half wrapper does not build: " + str(e)[-800:])
        return out
    mod = E.Module(b["ll"])
    recs, per = [], {}
    alphabet = alphabet or TC_ALPHABET
    deep_alphabet = deep_alphabet or TC_DEEP
    attr_text_ = (lambda lit, cfg: "#[display(%s%s)] %s" % ((json.dumps(lit),) + render(cfg))) if render else attr_text
    n_full = (n_full or TC_N)[tier]
    n_deep = (n_deep or TC_DEEP_N)[tier]
    jobs = [(n, alphabet) for n in range(0, n_full + 1)] + [(n, deep_alphabet) for n in range(n_full + 1, n_deep + 1)]
    for fname, cfg in forms:
        for n, alpha in jobs:
            outdir = os.path.join(scratch, "paths-%d-%d" % (cfg, n))
            os.makedirs(outdir)
            ex = driver.ParallelExec(mod, outdir, multiprocessing.Semaphore(common.NCPU - 1), max_steps=400000 * (n + 2))
            bs = [z3.BitVec("b%d" % i, 8) for i in range(n)]

            def setup(ex, st, n=n, bs=bs, cfg=cfg, alpha=alpha):
                buf = st.alloc(max(n, 1), "input")
                for i in range(n):
                    buf.data[i] = bs[i]
                dg = st.alloc(64, "digest")
                for i in range(64):
                    dg.data[i] = 0
                fr = st.frames[0]
                names = [p[1] for p in fr.fn.params]
                fr.regs[names[0]] = buf.base
                fr.regs[names[1]] = n
                fr.regs[names[2]] = dg.base
                fr.regs[names[3]] = cfg
                if n:
                    st.pc.append(z3.And(*[z3.Or(*[x == ord(c) for c in alpha]) for x in bs]))

            def describe(kind, detail, st, m, bs=bs, cfg=cfg):
                inp = [m.eval(x, model_completion=True).as_long() for x in bs] if m is not None else None
                rec = {"kind": kind, "input": inp, "cfg": cfg}
                if kind == "ret":
                    rv = detail
                    if E.is_sym(rv):
                        rv = m.eval(rv, model_completion=True).as_long()
                    rec["code"] = rv
                else:
                    rec["detail"] = str(detail)[:200]
                return rec
            ex.describe = describe
            ok = ex.run_parallel("@" + entry, setup)
            rs, stats, solver_s = driver.collect(outdir)
            if not ok:
                out["inconclusive"].append("a worker of the decision-half exploration died")
            per["%s / %d bytes" % (fname, n)] = {"paths": stats.get("paths", 0), "queries": stats.get("queries", 0), "solver_s": round(solver_s, 2)}
            recs += rs
        log("[%s] decision half, %s: %d paths so far" % (prop, fname, len(recs)))
    rets = [r for r in recs if r["kind"] == "ret"]
    for r in recs:
        if r["kind"] != "ret":
            out["inconclusive"].append("decision-half path ended %s: %s (%s)" % (
                r["kind"], r.get("detail"), attr_text_(bytes(r["input"] or []).decode("utf8", "replace"), r["cfg"])))
            break
    # native cross-check (return code must agree): all disagreeing paths and a sample of the agreeing ones
    fails = [r for r in rets if r["code"] != 0]
    sample = fails + [r for r in rets if r["code"] == 0][:6000]
    mism = 0
    bycfg = {}
    for r in sample:
        bycfg.setdefault(r["cfg"], []).append(r)
    for cfg, rs in bycfg.items():
        nat = native.run_native(b["so"], [bytes(r["input"]) for r in rs], extra=(cfg,), entry=entry)
        for r, x in zip(rs, nat):
            r["native"] = x
            if x.get("code") != r["code"]:
                mism += 1
    if mism:
        out["inconclusive"].append("llsym and the native build disagree on %d of %d decision-half paths" % (mism, len(sample)))
    groups = {}
    for r in fails:
        lit = bytes(r["input"]).decode("utf8", "replace")
        groups.setdefault("decision/%d/%s" % (r["code"], classify(r["code"], lit, r["cfg"])), []).append(r)
    replay_dir = os.path.join(common.REPLAY_DIR, prop)
    os.makedirs(replay_dir, exist_ok=True)
    for key, rs in sorted(groups.items()):
        text = kf.match(prop, key)
        r = min(rs, key=lambda r: (len(r["input"]), r["input"]))
        lit = bytes(r["input"]).decode("utf8", "replace")
        if text is not None:
            out["known"].append("KNOWN-FINDING: property=%s key=%s %s (%d paths, e.g. `%s`)" % (prop, key, text, len(rs), attr_text_(lit, r["cfg"])))
            continue
        if not (r.get("native") and r["native"].get("code") == r["code"]):
            out["inconclusive"].append("decision disagreement %s did not reproduce natively" % key)
            continue
        path = os.path.join(replay_dir, "decision_%s.json" % "".join(c if c.isalnum() else "_" for c in key)[:60])
        json.dump({"property": prop, "class": key, "entry": entry, "meaning": fail_text.get(r["code"]), "literal": lit, "bytes": r["input"], "cfg": r["cfg"],
                   "arguments": (" ".join(render(r["cfg"])) if render else tc_args_text(r["cfg"])), "user_level": "#[derive(Display)] " + attr_text_(lit, r["cfg"]),
                   "native": r["native"], "paths_in_class": len(rs), "others": [attr_text_(bytes(x["input"]).decode("utf8", "replace"), x["cfg"]) for x in rs[:10]]},
                  open(path, "w"), indent=1)
        out["violations"].append((key, path, "%s: `%s` (%d paths)" % (fail_text.get(r["code"]), attr_text_(lit, r["cfg"]), len(rs))))
    out["coverage"] = {
        "decision_half": {
            "engine": "llsym over the LLVM IR of vf/llsym/rust/tc/probe_tc.rs: %s cut verbatim out of impl/src/fmt/mod.rs + the working-tree "
                      "impl/src/fmt/parsing.rs and impl/src/parsing.rs (Expr), against syn/proc_macro2/quote stubs" % what,
            "functions_encoded": functions + ["impl/src/fmt/parsing.rs (everything the cut functions call)",
                                              "vf/llsym/rust/oracle.rs::reference (std's reading of the literal, pinned against rustc_parse_format)"],
            "bounds": {"literal": "every string of <= %d bytes over `%s`, then <= %d bytes over `%s`" % (n_full, alphabet, n_deep, deep_alphabet),
                       "argument_forms": [f for f, _ in forms],
                       "outside": "longer literals, other characters, three or more arguments, identifiers other than `a` / `b`"},
            "paths": len(recs), "paths_agreeing": len([r for r in rets if r["code"] == 0]), "paths_disagreeing": len(fails),
            "solver_queries": sum(v["queries"] for v in per.values()), "solver_s": round(sum(v["solver_s"] for v in per.values()), 1),
            "native_cross_check": {"paths": len(sample), "mismatches": mism}, "wall_s": round(time.time() - t0, 1),
            "per_form_and_length": per,
            "samples": [{"attribute": attr_text_(bytes(r["input"]).decode("utf8", "replace"), r["cfg"]), "verdict": r["code"]} for r in (rets[-3:] + fails[:3])],
        }
    }
    return out


def replay_json(prop, path):
    from ..llsym import build, native
    j = json.load(open(path))
    b = build.build_tc_wrapper(common.scratch_dir(prop + "-replay"))
    out = native.run_native(b["so"], [bytes(j["bytes"])], extra=(j["cfg"],), entry=j.get("entry", "probe"))[0]
    print("#[display(%s, %s)] -> native %s" % (json.dumps(j["literal"]), j.get("arguments"), out))
    if out.get("abort") or out.get("code") not in (0,):
        print("VIOLATION property=%s replay=%s" % (prop, path))
        return common.EXIT_VIOLATION
    return common.EXIT_OK
