"""C13 - FromStr: newtypes delegate to the field, enums match variant names.

Symbolic: the string - every ASCII string of <= L bytes (L = longest variant name + 1).  Oracle: the documented rule
restated over bytes with eq_ignore_ascii_case; for newtypes the inner type's own from_str."""
from ..shapes import Shape, Harness

SUPPORT = """use core::str::FromStr;

/// inner type of the newtypes: a total function of the bytes with both outcomes
#[derive(Clone, Copy, PartialEq, Eq, Debug)]
pub struct Inner(pub u8, pub usize);
#[derive(Clone, Copy, PartialEq, Eq, Debug)]
pub struct InnerErr(pub usize, pub u8);

impl FromStr for Inner {
    type Err = InnerErr;
    fn from_str(s: &str) -> Result<Inner, InnerErr> {
        let b = s.as_bytes();
        if b.is_empty() { return Err(InnerErr(0, 0)); }
        if b[0] == b'x' || b[b.len() - 1] > b'm' { return Err(InnerErr(b.len(), b[0])); }
        Ok(Inner(b[0], b.len()))
    }
}

/// Stub for `str::to_lowercase` under the ASCII-only assumption of this check (the real function walks the Unicode
/// case tables and grows a String byte by byte, which CBMC does not get through: > 10 min for 4 symbolic bytes).
#[cfg(kani)]
pub fn ascii_to_lowercase(s: &str) -> String {
    let mut v = s.as_bytes().to_vec();
    let mut i = 0;
    while i < v.len() {
        v[i] = v[i].to_ascii_lowercase();
        i += 1;
    }
    unsafe { String::from_utf8_unchecked(v) }
}

/// Stub for `str::to_lowercase` exact on ASCII + Latin-1 Supplement input (U+0000..U+00FF): ASCII letters, and U+00C0..U+00DE except
/// U+00D7 (bytes C3 80..9E except C3 97) map to the code point 0x20 above; everything else in that range is its own lower case.
#[cfg(kani)]
pub fn latin1_to_lowercase(s: &str) -> String {
    let mut v = s.as_bytes().to_vec();
    let mut i = 0;
    while i < v.len() {
        if v[i] < 128 {
            v[i] = v[i].to_ascii_lowercase();
        } else if v[i] == 0xC3 && i + 1 < v.len() {
            if v[i + 1] >= 0x80 && v[i + 1] <= 0x9E && v[i + 1] != 0x97 { v[i + 1] += 0x20; }
            i += 1;
        }
        i += 1;
    }
    unsafe { String::from_utf8_unchecked(v) }
}

/// the same rule, restated for the oracle: equality of two Latin-1 strings ignoring case
#[cfg(kani)]
pub fn eq_ignore_latin1_case(a: &str, b: &str) -> bool {
    let (a, b) = (a.as_bytes(), b.as_bytes());
    if a.len() != b.len() { return false; }
    let low = |x: u8, after_c3: bool| -> u8 {
        if after_c3 { if x >= 0x80 && x <= 0x9E && x != 0x97 { x + 0x20 } else { x } } else { x.to_ascii_lowercase() }
    };
    let mut i = 0;
    while i < a.len() {
        let c3 = i > 0 && a[i - 1] == 0xC3 && b[i - 1] == 0xC3;
        if low(a[i], c3) != low(b[i], c3) { return false; }
        i += 1;
    }
    true
}

/// an arbitrary string of at most N bytes that starts with one character of U+00C0..U+00FF (bytes C3 80..BF) followed by ASCII
/// (byte positions stay concrete: a symbolic mix of 1- and 2-byte characters at symbolic offsets is beyond CBMC's reach here)
#[cfg(kani)]
pub fn any_latin1_then_ascii<const N: usize>(buf: &mut [u8; N]) -> &str {
    let len: usize = kani::any();
    kani::assume(len >= 2 && len <= N);
    buf[0] = 0xC3;
    let c: u8 = kani::any();
    kani::assume(c >= 0x80 && c <= 0xBF);
    buf[1] = c;
    let mut i = 2;
    while i < N {
        let c: u8 = kani::any();
        kani::assume(c < 128);
        buf[i] = c;
        i += 1;
    }
    unsafe { core::str::from_utf8_unchecked(&buf[..len]) }
}

/// an arbitrary ASCII string of at most N bytes
#[cfg(kani)]
pub fn any_ascii<const N: usize>(buf: &mut [u8; N]) -> &str {
    let len: usize = kani::any();
    kani::assume(len <= N);
    let mut i = 0;
    while i < N {
        let c: u8 = kani::any();
        kani::assume(c < 128);
        buf[i] = c;
        i += 1;
    }
    // ASCII bytes are valid UTF-8
    unsafe { core::str::from_utf8_unchecked(&buf[..len]) }
}
"""

HEAD = "#![allow(dead_code, unused, clippy::all, non_camel_case_types)]\nuse crate::support::*;\nuse core::str::FromStr;\n\n"


def module(decls, harness_src):
    return HEAD + decls + "\n\n#[cfg(kani)]\nmod proofs {\n    use super::*;\n" + harness_src + "}\n"


def newtype_shape():
    decl = ("#[derive(Clone, Copy, PartialEq, Debug, derive_more::FromStr)]\npub struct T(pub Inner);\n"
            "#[derive(Clone, Copy, PartialEq, Debug, derive_more::FromStr)]\npub struct N { pub v: Inner }\n"
            "#[derive(Clone, Copy, PartialEq, Debug, derive_more::FromStr)]\npub struct G<X>(pub X);")
    src = """    #[kani::proof]
    #[kani::unwind(8)]
    fn newtype_parses_as_its_field() {
        let mut buf = [0u8; 6];
        let s = any_ascii(&mut buf);
        let want = Inner::from_str(s);
        assert!(T::from_str(s) == want.map(T), "tuple newtype does not parse as its field");
        assert!(N::from_str(s) == want.map(|v| N { v }), "named newtype does not parse as its field");
        assert!(G::<Inner>::from_str(s) == want.map(G), "generic newtype does not parse as its field");
        kani::cover!(want.is_ok(), "reach Ok");
        kani::cover!(want.is_err() && s.len() > 0, "reach Err");
    }
"""
    hs = [Harness("newtype_parses_as_its_field", "the string: every ASCII string of <= 6 bytes", covers=2, unwind=8,
                  asserts="S::from_str(s) == Inner::from_str(s).map(S), success value wrapped and error unchanged")]
    return Shape("c13_newtypes", module(decl, src), hs, decl.replace("\n", " "), exercises=["impl/src/from_str.rs::struct_from"])


def enum_shape(name, variants, maxlen=None, quick=True):
    """variants: list of Rust identifiers (may be raw: r#fn)"""
    plain = [v[2:] if v.startswith("r#") else v for v in variants]
    lower = [p.lower() for p in plain]
    L = (maxlen or max(len(p) for p in plain)) + 1
    decl = "#[derive(Clone, Copy, PartialEq, Debug, derive_more::FromStr)]\npub enum E {\n%s\n}" % "\n".join("    %s," % v for v in variants)
    conds = []
    for v, p, lo in zip(variants, plain, lower):
        unique = lower.count(lo) == 1
        m = ("s.eq_ignore_ascii_case(\"%s\")" % p) if unique else ("s == \"%s\"" % p)
        conds.append((v, p, m, unique))
    oracle = "        let want: Option<E> = " + " else ".join("if %s { Some(E::%s) }" % (m, v) for v, p, m, u in conds) + " else { None };\n"
    roundtrip = "".join("        assert!(E::from_str(\"%s\") == Ok(E::%s), \"variant %s does not parse from its own name\");\n" % (p, v, p)
                        for v, p, m, u in conds)
    src = """    #[kani::proof]
    #[kani::unwind(%(unw)d)]
    #[kani::stub(str::to_lowercase, ascii_to_lowercase)]
    fn matches_variant_names() {
        let mut buf = [0u8; %(L)d];
        let s = any_ascii(&mut buf);
%(oracle)s        let got = E::from_str(s);
        match (got, want) {
            (Ok(g), Some(w)) => assert!(g == w, "parsed to the wrong variant"),
            (Ok(_), None) => assert!(false, "accepted a string that is no variant name"),
            (Err(_), Some(_)) => assert!(false, "rejected a string that names a variant"),
            (Err(e), None) => assert!(Some(e) == E::from_str("\\u{1}").err(), "error differs from the enum's FromStrError"),
        }
        kani::cover!(want.is_some(), "reach a match");
        kani::cover!(want.is_none() && s.len() > 0, "reach a rejection");
    }
    #[kani::proof]
    #[kani::unwind(%(unw)d)]
    #[kani::stub(str::to_lowercase, ascii_to_lowercase)]
    fn own_names_parse_back() {
%(roundtrip)s        kani::cover!(true, "reach end");
    }
""" % dict(unw=L + 3, L=L, oracle=oracle, roundtrip=roundtrip)
    hs = [Harness("matches_variant_names", "the string: every ASCII string of <= %d bytes" % L, covers=2, unwind=L + 3,
                  asserts="from_str(s) is Ok(V) iff s equals V's name (ignoring ASCII case when V's lower-cased name is unique, exactly otherwise); else the enum's FromStrError"),
          Harness("own_names_parse_back", "none (concrete: each variant's own name)", covers=1, unwind=L + 3,
                  asserts="every variant's own name parses back to that variant")]
    return Shape("c13_enum_%s" % name, module(decl, src), hs, decl.replace("\n", " "),
                 exercises=["impl/src/from_str.rs::enum_from", "src/str.rs::FromStrError"], quick=quick)


def latin1_enum_shape():
    """variant names with non-ASCII cased letters: the input must be lower-cased the way the names were at expansion time"""
    variants = ["Üb", "ÜB", "Öl", "Ab"]
    decl = "#[derive(Clone, Copy, PartialEq, Debug, derive_more::FromStr)]\npub enum E {\n%s\n}" % "\n".join("    %s," % v for v in variants)
    src = """    #[kani::proof]
    #[kani::unwind(12)]
    #[kani::stub(str::to_lowercase, latin1_to_lowercase)]
    fn matches_latin1_variant_names() {
        // exactly two characters: one of U+00C0..U+00FF, then one ASCII byte (fixed length: a symbolic length on top makes the
        // instance 68 M clauses / > 12 GB; this one is decided in seconds)
        let c: u8 = kani::any();
        let y: u8 = kani::any();
        kani::assume(c >= 0x80 && c <= 0xBF && y < 128);
        let b1 = [0xC3u8, c, y];
        let s = unsafe { core::str::from_utf8_unchecked(&b1) };
        let want: Option<E> = if s == "Üb" { Some(E::Üb) } else if s == "ÜB" { Some(E::ÜB) }
            else if eq_ignore_latin1_case(s, "Öl") { Some(E::Öl) } else if s.eq_ignore_ascii_case("Ab") { Some(E::Ab) } else { None };
        let got = E::from_str(s);
        match (got, want) {
            (Ok(g), Some(w)) => assert!(g == w, "parsed to the wrong variant"),
            (Ok(_), None) => assert!(false, "accepted a string that is no variant name"),
            (Err(_), Some(_)) => assert!(false, "rejected a string that names a variant"),
            (Err(_), None) => {}
        }
        kani::cover!(matches!(want, Some(E::Öl)) && s != "Öl", "reach a case-insensitive non-ASCII match");
        kani::cover!(want.is_none(), "reach a rejection");
    }
    #[kani::proof]
    #[kani::unwind(12)]
    #[kani::stub(str::to_lowercase, latin1_to_lowercase)]
    fn own_latin1_names_parse_back() {
        assert!(E::from_str("Üb") == Ok(E::Üb), "variant Üb does not parse from its own name");
        assert!(E::from_str("ÜB") == Ok(E::ÜB), "variant ÜB does not parse from its own name");
        assert!(E::from_str("Öl") == Ok(E::Öl) && E::from_str("öL") == Ok(E::Öl) && E::from_str("ÖL") == Ok(E::Öl), "Öl must match ignoring case");
        assert!(E::from_str("üb").is_err(), "in a case-colliding group only the exact names match");
        kani::cover!(true, "reach end");
    }
"""
    hs = [Harness("matches_latin1_variant_names", "the string: one character of U+00C0..U+00FF followed by one ASCII byte (64 x 128 strings)", covers=2, unwind=12,
                  asserts="from_str(s) is Ok(V) iff s equals V's name (ignoring case, incl. the non-ASCII letters, when unique; exactly otherwise)"),
          Harness("own_latin1_names_parse_back", "none (concrete)", covers=1, unwind=12, asserts="non-ASCII variant names parse back; other casings of a unique name match")]
    return Shape("c13_enum_latin1_names", module(decl, src), hs, decl.replace("\n", " "),
                 exercises=["impl/src/from_str.rs::enum_from (expansion-time vs run-time lower-casing)"])


def error_text_shape():
    decl = ("#[derive(Clone, Copy, PartialEq, Debug, derive_more::FromStr)]\npub enum Colour { Red, Green }\n"
            "#[derive(Clone, Copy, PartialEq, Debug, derive_more::FromStr)]\npub enum Void {}\n"
            "#[derive(Clone, Copy, PartialEq, Debug, derive_more::FromStr)]\npub enum Single { Only }\n"
            "#[derive(Clone, Copy, PartialEq, Debug, derive_more::FromStr)]\npub enum r#Raw { r#Only, only }")
    src = """    #[kani::proof]
    #[kani::unwind(12)]
    #[kani::stub(str::to_lowercase, ascii_to_lowercase)]
    fn error_is_the_enums_from_str_error() {
        let e = Colour::from_str("?").unwrap_err();
        let f = Colour::from_str("reds").unwrap_err();
        assert!(e == f);
        let e: derive_more::FromStrError = e;
        // ... and it names the enum - also for an enum without variants, with one variant, and with a raw-identifier name
        assert!(e == derive_more::FromStrError::new("Colour"), "the error does not name the enum");
        assert!(Void::from_str("x").err() == Some(derive_more::FromStrError::new("Void")), "enum without variants: every string is rejected with an error naming the enum");
        assert!(Void::from_str("").err() == Some(derive_more::FromStrError::new("Void")));
        assert!(Single::from_str("onl").err() == Some(derive_more::FromStrError::new("Single")) && Single::from_str("ONLY") == Ok(Single::Only));
        // (whether a raw-identifier enum is named `Raw` or `r#Raw` in the error is not fixed by the property: either is accepted)
        let r = r#Raw::from_str("ONLY").err();
        assert!((r == Some(derive_more::FromStrError::new("Raw")) || r == Some(derive_more::FromStrError::new("r#Raw"))) && r#Raw::from_str("only") == Ok(r#Raw::only));
        kani::cover!(true, "reach end");
    }
"""
    hs = [Harness("error_is_the_enums_from_str_error", "none (concrete)", covers=1, unwind=12,
                  asserts="rejections carry derive_more::FromStrError naming the enum (also for enums with zero / one variant and raw-identifier names), equal for all rejected strings")]
    return Shape("c13_error_type", module(decl, src), hs, decl.replace("\n", " "), exercises=["src/str.rs::FromStrError"])


def shapes(tier):
    out = [newtype_shape(),
           enum_shape("distinct", ["Foo", "Bar", "Baz"]),
           enum_shape("case_groups", ["Foo", "FOO", "foo", "Bar", "Fo"]),
           enum_shape("one_letter", ["A", "B", "b", "Cd"]),
           enum_shape("digits", ["V2", "Http2", "v2x"]),
           enum_shape("raw_ident", ["r#fn", "r#Type", "Plain"]),
           enum_shape("raw_ident_case_group", ["r#type", "Type", "r#fn", "FN", "Mod"]),
           enum_shape("prefixes", ["Ab", "Abc", "ABCD", "abcd"]),
           # variants differing only in case that are NOT adjacent in the declaration, around unique ones
           enum_shape("case_group_split", ["Baz", "Foo", "BaZ"]),
           enum_shape("case_groups_interleaved", ["Ab", "Cd", "AB", "Other", "ab", "CD"]),
           # names that begin with a lower-case `r` (raw or not): stripping a raw prefix must not eat them (seed C13-unraw-helper-trims-leading-r)
           enum_shape("leading_r_names", ["red", "r#ref", "rgb", "Rgb", "Other"]),
           latin1_enum_shape(),
           error_text_shape()]
    if tier == "quick":
        out = [s for s in out if s.quick]
    return out


DESCRIPTION = {
    "grid": "newtypes (tuple, named, generic) over an inner type whose from_str is a total function of the bytes with both outcomes; "
            "field-less enums: distinct names, a group differing only in case next to a unique name and a prefix of it (adjacent, and split / interleaved with other variants), one-letter names "
            "with a case clash, names with digits, raw-identifier names, names that are prefixes of each other",
    "symbolic": "the string: every ASCII string of <= L bytes, L = longest variant name + 1 (4..6)",
    "oracle": "inner from_str mapped through the constructor; for enums the documented rule restated with eq_ignore_ascii_case",
    "not_covered": ["input outside ASCII + Latin-1 (U+212A KELVIN SIGN lower-cases to `k`; final sigma; expanding case mappings)", "strings longer than L"],
}
ASSUMPTIONS = ["input strings are ASCII (bytes < 128); in shape c13_enum_latin1_names: characters up to U+00FF, with a to_lowercase stub exact on that range",
               "stub: `str::to_lowercase` is replaced (kani -Z stubbing) by an ASCII lower-casing model, exact on ASCII input; "
               "the call itself - that the expansion lower-cases the input and matches it against lower-cased names - is real code"]
HARNESS_TIMEOUT = {"quick": 600, "thorough": 1800}
KANI_FLAGS = ["-Z", "stubbing"]
