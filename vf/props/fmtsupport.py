"""Instruments shared by the formatting harnesses (C02 C05 C06 C07): Sink, Probe, the global trace, symbolic
FormattingOptions."""

CRATE_ATTRS = ["#![feature(formatting_options)]"]

TRAITS = [  # (trait, attribute name, placeholder type suffix, trace letter)
    ("Display", "display", "", "D"),
    ("Binary", "binary", "b", "b"),
    ("Octal", "octal", "o", "o"),
    ("LowerHex", "lower_hex", "x", "x"),
    ("UpperHex", "upper_hex", "X", "X"),
    ("LowerExp", "lower_exp", "e", "e"),
    ("UpperExp", "upper_exp", "E", "E"),
    ("Pointer", "pointer", "p", "p"),
    ("Debug", "debug", "?", "?"),
]
TRAIT_BY_NAME = {t[0]: t for t in TRAITS}

SUPPORT = r"""use core::fmt::{self, FormattingOptions, Write};

pub const CAP: usize = 96;

/// fixed-capacity `fmt::Write`; no loops: bytes are copied slice-wise
pub struct Sink { pub buf: [u8; CAP], pub len: usize, pub overflow: bool }
impl Sink {
    pub fn new() -> Self { Sink { buf: [0; CAP], len: 0, overflow: false } }
    pub fn same(&self, o: &Sink) -> bool {
        if self.len != o.len || self.overflow != o.overflow { return false; }
        // unused tail bytes are zero in both: compare the whole buffers as six u128s
        let w = |b: &[u8; CAP], i: usize| { let mut x = [0u8; 16]; x.copy_from_slice(&b[i..i + 16]); u128::from_le_bytes(x) };
        w(&self.buf, 0) == w(&o.buf, 0) && w(&self.buf, 16) == w(&o.buf, 16) && w(&self.buf, 32) == w(&o.buf, 32)
            && w(&self.buf, 48) == w(&o.buf, 48) && w(&self.buf, 64) == w(&o.buf, 64) && w(&self.buf, 80) == w(&o.buf, 80)
    }
}
impl fmt::Write for Sink {
    fn write_str(&mut self, s: &str) -> fmt::Result {
        let n = s.len();
        if n <= CAP && self.len <= CAP - n {
            self.buf[self.len..self.len + n].copy_from_slice(s.as_bytes());
            self.len += n;
        } else {
            self.overflow = true;
        }
        Ok(())
    }
}

/// one call of a formatting trait on a probe: which probe, under which trait, with which options
#[derive(Clone, Copy, PartialEq, Eq)]
pub struct Ev { pub id: u8, pub tr: u8, pub opts: FormattingOptions }

pub const TRACE_CAP: usize = 6;
#[derive(Clone, Copy, PartialEq, Eq)]
pub struct Trace { pub n: usize, pub ev: [Option<Ev>; TRACE_CAP] }
pub static mut TRACE: Trace = Trace { n: 0, ev: [None; TRACE_CAP] };

pub fn trace_reset() { unsafe { TRACE = Trace { n: 0, ev: [None; TRACE_CAP] }; } }
pub fn trace_take() -> Trace { let t = unsafe { TRACE }; trace_reset(); t }
fn record(id: u8, tr: u8, opts: FormattingOptions) {
    unsafe {
        if TRACE.n < TRACE_CAP { TRACE.ev[TRACE.n] = Some(Ev { id, tr, opts }); }
        TRACE.n += 1;
    }
}

/// The field type of the formatting harnesses.  Each formatting trait records (id, trait, options seen) and writes
/// two marker bytes (trait letter, id letter).  A Formatter is exactly (options, sink), so "same events in the same
/// order with the same options, and the same bytes in the sink" is "byte-for-byte what std prints" for every field
/// type whose output is a function of (value, options).
#[derive(Clone, Copy, PartialEq, Eq)]
pub struct Probe { pub id: u8 }
impl Probe {
    pub fn new(id: u8) -> Probe { Probe { id: id & 15 } }
    pub fn pick(&self) -> &Probe { self }
    pub fn twin(&self) -> Probe { Probe { id: (self.id + 1) & 15 } }
}
macro_rules! probe_impl { ($($tr:ident => $m:expr),*) => {$(
    impl fmt::$tr for Probe {
        fn fmt(&self, f: &mut fmt::Formatter<'_>) -> fmt::Result {
            record(self.id, $m, f.options());
            let b = [$m, b'a' + self.id];
            f.write_str(unsafe { core::str::from_utf8_unchecked(&b) })
        }
    })*};
}
probe_impl!(Display => b'D', Debug => b'?', LowerHex => b'x', UpperHex => b'X', Octal => b'o', Binary => b'b',
            LowerExp => b'e', UpperExp => b'E', Pointer => b'p');

/// a fully symbolic caller-side format spec
#[cfg(kani)]
pub fn any_opts() -> FormattingOptions {
    let mut o = FormattingOptions::new();
    o.fill(match kani::any::<u8>() % 4 { 0 => ' ', 1 => '*', 2 => '0', _ => 'é' });
    o.align(match kani::any::<u8>() % 4 { 0 => None, 1 => Some(fmt::Alignment::Left), 2 => Some(fmt::Alignment::Right), _ => Some(fmt::Alignment::Center) });
    o.sign(match kani::any::<u8>() % 3 { 0 => None, 1 => Some(fmt::Sign::Plus), _ => Some(fmt::Sign::Minus) });
    o.alternate(kani::any());
    o.sign_aware_zero_pad(kani::any());
    let w: Option<u16> = kani::any();
    o.width(w);
    let p: Option<u16> = kani::any();
    o.precision(p);
    o.debug_as_hex(match kani::any::<u8>() % 3 { 0 => None, 1 => Some(fmt::DebugAsHex::Lower), _ => Some(fmt::DebugAsHex::Upper) });
    o
}

/// format `v` under trait `$tr` with caller options `o` into a fresh sink; returns (sink, trace)
#[macro_export]
macro_rules! run_fmt {
    ($tr:ident, $v:expr, $o:expr) => {{
        $crate::support::trace_reset();
        let mut sink = $crate::support::Sink::new();
        {
            let mut f = $o.create_formatter(&mut sink);
            let r = core::fmt::$tr::fmt($v, &mut f);
            assert!(r.is_ok(), "formatting returned an error");
        }
        (sink, $crate::support::trace_take())
    }};
}
"""
