"""C17 - synonymous attribute spellings are equivalent; contradictory ones rejected (engine K, partial - DESIGN.md 10.12).

Two halves:

* **equivalence**: the same type is declared in modules `m0`, `m1`, ... with the spellings the property calls synonymous (`skip` / `ignore`,
  `bound` / `bounds`, one attribute listing several types / several attributes listing one each, a trailing comma, each order of independent
  attributes).  One Kani harness per program family drives every spelling with the same symbolic values and asserts that the observable behaviour of
  the generated impls is the same as under spelling `m0` - for every value (and for the formatting derives: the same bytes, and the same
  (trait, options) seen by every field).  A spelling that loses or gains an impl does not type-check (rustc's verdict, attributed to the program).
* **rejection**: programs carrying an unknown, duplicated, misplaced, legacy or contradicting argument in a documented position.  They have no
  harness: the property is that the derive fails with a diagnostic, which is decided by rustc while the harness crate is built - **not** by the
  solver; the evidence says so.  A program of this list that compiles is reported as a violation."""
from ..shapes import Shape, Harness
from . import fmtsupport

CRATE_ATTRS = fmtsupport.CRATE_ATTRS
SUPPORT = fmtsupport.SUPPORT + r"""
use core::ops::{Deref, DerefMut};

#[derive(Clone, Copy, PartialEq, Eq, Debug)]
pub struct Inner { pub items: [u8; 3], pub tag: u32 }
impl AsRef<[u8; 3]> for Inner { fn as_ref(&self) -> &[u8; 3] { &self.items } }
impl AsRef<u32> for Inner { fn as_ref(&self) -> &u32 { &self.tag } }
impl AsMut<[u8; 3]> for Inner { fn as_mut(&mut self) -> &mut [u8; 3] { &mut self.items } }
impl AsMut<u32> for Inner { fn as_mut(&mut self) -> &mut u32 { &mut self.tag } }
#[cfg(kani)]
pub fn any_inner() -> Inner { Inner { items: kani::any(), tag: kani::any() } }
"""

HEAD = ("#![allow(dead_code, unused, clippy::all, non_camel_case_types)]\nuse crate::support::*;\nuse crate::run_fmt;\n"
        "use core::fmt::{self, FormattingOptions, Write as _};\nuse core::ptr;\n\n")

DESCRIPTION = {
    "programs": "equivalence: 23 families of 2-7 spellings each; rejection: the must-not-compile list (unknown / duplicated / misplaced / legacy / "
                "contradicting arguments in documented positions of Debug, Display, From, Into, AsRef, Deref, Error, TryFrom, IsVariant, Unwrap, "
                "TryInto, Mul, IntoIterator, Index)",
    "values": "every field value symbolic (u8 / u16 / u32, arrays of 3 bytes, probe ids); formatter width and precision values symbolic, flags from a "
              "concrete list; enum variant selector symbolic",
    "outside": "token-level identity of the expansions (the property's 'identical implementations' is decided as 'indistinguishable behaviour of the "
               "impls on every value'); attribute sets not in the grid; the wording of diagnostics",
}
ASSUMPTIONS = [
    "the rejection half is decided by rustc (does the program compile), not by the SAT solver; it is reported separately in the evidence "
    "(must_not_compile_*)",
    "equivalence is behavioural: the impls generated under two spellings agree on every symbolic value; an extra impl under one spelling that no "
    "harness calls is not seen",
]


def ind(s):
    return "\n".join("    " + l if l else l for l in s.splitlines())


def family(name, spellings, body, symbolic, asserts, exercises, covers=1, unwind=None, quick=True, derive=""):
    """spellings: list of Rust item sources (one per module m<i>); body: harness body using the macro-ish placeholder {M} for a module path -
    it is instantiated once per spelling, results are compared to spelling 0 by the code in `body` itself (see callers)."""
    mods = "".join("pub mod m%d {\n    use crate::support::*;\n%s\n}\n" % (i, ind(src)) for i, src in enumerate(spellings))
    src = HEAD + mods + "\n#[cfg(kani)]\nmod proofs {\n    use super::*;\n" + body + "}\n"
    h = Harness("spellings_agree", symbolic, covers=covers, unwind=unwind, asserts=asserts)
    return Shape("c17_eq_%s" % name, src, [h], " | ".join(s.replace("\n", " ") for s in spellings), exercises=exercises, quick=quick,
                 crate_attrs=CRATE_ATTRS)


def harness(decls, per_spelling, n, unwind=None):
    """decls: symbolic inputs; per_spelling(i) -> Rust expression block producing a comparable value `r<i>`."""
    out = "    #[kani::proof]\n"
    if unwind:
        out += "    #[kani::unwind(%d)]\n" % unwind
    out += "    fn spellings_agree() {\n" + decls
    for i in range(n):
        out += "        let r%d = { %s };\n" % (i, per_spelling(i))
    for i in range(1, n):
        out += "        assert!(r0 == r%d, \"spelling %d behaves differently from spelling 0\");\n" % (i, i)
    out += "        kani::cover!(true, \"reach end\");\n    }\n"
    return out


def fmt_harness(decls, mk, n, tr="Debug", opts=None, unwind=10):
    """formatting families: same sink bytes and same trace under every spelling"""
    opts = opts or ["let o = FormattingOptions::new();",
                    "let mut o = FormattingOptions::new(); o.debug_as_hex(Some(fmt::DebugAsHex::Lower)); o.width(Some(kani::any()));"]
    out = ""
    for k, o in enumerate(opts):
        out += "    #[kani::proof]\n    #[kani::unwind(%d)]\n    fn spellings_agree_%d() {\n%s        %s\n" % (unwind, k, decls, o)
        for i in range(n):
            out += "        let v%d = %s;\n        let (s%d, t%d) = run_fmt!(%s, &v%d, o);\n" % (i, mk(i), i, i, tr, i)
        out += "        assert!(!s0.overflow, \"HARNESS: sink too small\");\n"
        for i in range(1, n):
            out += "        assert!(s0.same(&s%d), \"spelling %d prints different bytes than spelling 0\");\n" % (i, i)
            out += "        assert!(t0 == t%d, \"under spelling %d the fields saw a different (trait, options) sequence\");\n" % (i, i)
        out += "        kani::cover!(s0.len >= 1, \"reach non-empty output\");\n    }\n"
    return out, len(opts)


def fmt_family(name, spellings, decls, mk, tr, exercises, quick=True, opts=None):
    body, k = fmt_harness(decls, mk, len(spellings), tr, opts)
    mods = "".join("pub mod m%d {\n    use crate::support::*;\n%s\n}\n" % (i, ind(src)) for i, src in enumerate(spellings))
    src = HEAD + mods + "\n#[cfg(kani)]\nmod proofs {\n    use super::*;\n" + body + "}\n"
    hs = [Harness("spellings_agree_%d" % i, "probe ids symbolic; width value symbolic in variant 1; variant selector symbolic for enums", covers=1, unwind=10,
                  asserts="same sink bytes and same (probe, trait, options) events as under the first spelling") for i in range(k)]
    return Shape("c17_eq_%s" % name, src, hs, " | ".join(s.replace("\n", " ") for s in spellings), exercises=exercises, quick=quick,
                 crate_attrs=CRATE_ATTRS)


IDS = "        let i0: u8 = kani::any();\n        let i1: u8 = kani::any();\n        let i2: u8 = kani::any();\n"
P = "Probe::new(%s)"


def equivalence_shapes():
    out = []
    # ------------------------------------------------------------------ Debug: skip / ignore
    d = lambda w: ("#[derive(derive_more::Debug)]\npub struct S { pub a: Probe, #[debug(%s)] pub b: Probe, pub c: Probe }" % w)
    out.append(fmt_family("debug_skip_named", [d("skip"), d("ignore")], IDS,
                          lambda i: "m%d::S { a: %s, b: %s, c: %s }" % (i, P % "i0", P % "i1", P % "i2"), "Debug",
                          ["impl/src/fmt/debug.rs::FieldAttribute", "impl/src/utils.rs::attr::Skip"]))
    d = lambda w: ("#[derive(derive_more::Debug)]\npub enum E { A(Probe, #[debug(%s)] Probe), B { #[debug(%s)] x: Probe, y: Probe }, C(#[debug(%s)] Probe) }" % (w, w, w))
    out.append(fmt_family("debug_skip_enum", [d("skip"), d("ignore")], IDS + "        let sel: u8 = kani::any();\n",
                          lambda i: "match sel %% 3 { 0 => m%d::E::A(%s, %s), 1 => m%d::E::B { x: %s, y: %s }, _ => m%d::E::C(%s) }" % (
                              i, P % "i0", P % "i1", i, P % "i1", P % "i2", i, P % "i0"), "Debug",
                          ["impl/src/fmt/debug.rs::FieldAttribute", "impl/src/utils.rs::attr::Skip"]))
    # ------------------------------------------------------------------ bound / bounds, attribute order, trailing commas
    disp = ["#[derive(derive_more::Display)]\n#[display(\"<{_0}>\")]\n#[display(bound(T: core::fmt::Display))]\npub struct S<T>(pub T);",
            "#[derive(derive_more::Display)]\n#[display(\"<{_0}>\")]\n#[display(bounds(T: core::fmt::Display))]\npub struct S<T>(pub T);",
            "#[derive(derive_more::Display)]\n#[display(bound(T: core::fmt::Display))]\n#[display(\"<{_0}>\")]\npub struct S<T>(pub T);",
            "#[derive(derive_more::Display)]\n#[display(\"<{_0}>\")]\n#[display(bound(T: core::fmt::Display,))]\npub struct S<T>(pub T);"]
    out.append(fmt_family("display_bound_spellings", disp, IDS, lambda i: "m%d::S(%s)" % (i, P % "i0"), "Display",
                          ["impl/src/fmt/mod.rs::BoundsAttribute", "impl/src/fmt/display.rs::ContainerAttributes"],
                          opts=["let o = FormattingOptions::new();", "let mut o = FormattingOptions::new(); o.width(Some(kani::any()));"]))
    dbg = ["#[derive(derive_more::Debug)]\n#[debug(\"<{_0:?}>\")]\n#[debug(bound(T: core::fmt::Debug))]\npub struct S<T>(pub T);",
           "#[derive(derive_more::Debug)]\n#[debug(\"<{_0:?}>\")]\n#[debug(bounds(T: core::fmt::Debug))]\npub struct S<T>(pub T);",
           "#[derive(derive_more::Debug)]\n#[debug(bounds(T: core::fmt::Debug))]\n#[debug(\"<{_0:?}>\")]\npub struct S<T>(pub T);"]
    out.append(fmt_family("debug_bound_spellings", dbg, IDS, lambda i: "m%d::S(%s)" % (i, P % "i0"), "Debug",
                          ["impl/src/fmt/mod.rs::BoundsAttribute", "impl/src/fmt/debug.rs::ContainerAttributes"], quick=False))
    args = ["#[derive(derive_more::Display)]\n#[display(\"{} {}\", _1, _0)]\npub struct S(pub Probe, pub Probe);",
            "#[derive(derive_more::Display)]\n#[display(\"{} {}\", _1, _0,)]\npub struct S(pub Probe, pub Probe);"]
    out.append(fmt_family("display_args_trailing_comma", args, IDS, lambda i: "m%d::S(%s, %s)" % (i, P % "i0", P % "i1"), "Display",
                          ["impl/src/fmt/mod.rs::FmtAttribute::parse", "impl/src/parsing.rs::Expr"],
                          opts=["let o = FormattingOptions::new();"]))
    lone = ["#[derive(derive_more::Display)]\n#[display(\"<{_0}>\")]\npub struct S(pub Probe);",
            "#[derive(derive_more::Display)]\n#[display(\"<{_0}>\",)]\npub struct S(pub Probe);"]
    out.append(fmt_family("display_literal_trailing_comma", lone, IDS, lambda i: "m%d::S(%s)" % (i, P % "i0"), "Display",
                          ["impl/src/fmt/mod.rs::FmtAttribute::parse"], opts=["let o = FormattingOptions::new();"]))
    lone = ["#[derive(derive_more::Debug)]\npub enum E { #[debug(\"a{_0:?}\")] A(Probe), B { #[debug(\"{x}\")] x: Probe } }",
            "#[derive(derive_more::Debug)]\npub enum E { #[debug(\"a{_0:?}\",)] A(Probe), B { #[debug(\"{x}\",)] x: Probe } }"]
    out.append(fmt_family("debug_literal_trailing_comma", lone, IDS + "        let sel: bool = kani::any();\n",
                          lambda i: "if sel { m%d::E::A(%s) } else { m%d::E::B { x: %s } }" % (i, P % "i0", i, P % "i1"), "Debug",
                          ["impl/src/fmt/mod.rs::FmtAttribute::parse"], opts=["let o = FormattingOptions::new();"]))
    ren = ["#[derive(derive_more::Display)]\n#[display(rename_all = \"snake_case\")]\n#[display(bound(T: core::fmt::Display))]\npub enum E<T> { FirstOne, #[display(\"{_0}\")] Other(T) }",
           "#[derive(derive_more::Display)]\n#[display(bound(T: core::fmt::Display))]\n#[display(rename_all = \"snake_case\")]\npub enum E<T> { FirstOne, #[display(\"{_0}\")] Other(T) }"]
    out.append(fmt_family("display_rename_bound_order", ren, IDS + "        let sel: bool = kani::any();\n",
                          lambda i: "if sel { m%d::E::FirstOne } else { m%d::E::Other(%s) }" % (i, i, P % "i0"), "Display",
                          ["impl/src/fmt/display.rs::ContainerAttributes (merge of independent attributes)"],
                          opts=["let o = FormattingOptions::new();"]))
    # ------------------------------------------------------------------ From
    fr = ["#[derive(derive_more::From, PartialEq, Clone, Copy)]\n#[from(u8, u16)]\npub struct S(pub u32);",
          "#[derive(derive_more::From, PartialEq, Clone, Copy)]\n#[from(u8)]\n#[from(u16)]\npub struct S(pub u32);",
          "#[derive(derive_more::From, PartialEq, Clone, Copy)]\n#[from(u16)]\n#[from(u8)]\npub struct S(pub u32);",
          "#[derive(derive_more::From, PartialEq, Clone, Copy)]\n#[from(u8, u16,)]\npub struct S(pub u32);",
          "#[derive(derive_more::From, PartialEq, Clone, Copy)]\n#[from(u8,)]\n#[from(u16)]\npub struct S(pub u32);",
          "#[derive(derive_more::From, PartialEq, Clone, Copy)]\n#[from(u16,)]\n#[from(u8,)]\npub struct S(pub u32);"]
    out.append(family("from_types_struct", fr,
                      harness("        let x: u8 = kani::any();\n        let y: u16 = kani::any();\n",
                              lambda i: "(m%d::S::from(x).0, m%d::S::from(y).0)" % (i, i), len(fr)),
                      "x: u8, y: u16 symbolic", "From<u8> and From<u16> give the same field value under every spelling",
                      ["impl/src/from.rs::expand", "impl/src/utils.rs::attr::Conversion / Types (merge of repeated attributes)"]))
    fv = lambda a, b: ("#[derive(derive_more::From, PartialEq, Clone, Copy)]\npub enum E { %s A(u32), %s B(u64), C(i8) }" % (a, b))
    frv = [fv("#[from(u8, u16)]", "#[from(skip)]"), fv("#[from(u8)] #[from(u16)]", "#[from(ignore)]"), fv("#[from(u16, u8,)]", "#[from(ignore)]"), fv("#[from(u8,)] #[from(u16)]", "#[from(skip)]")]
    out.append(family("from_types_and_skip_variant", frv,
                      harness("        let x: u8 = kani::any();\n        let y: u16 = kani::any();\n",
                              lambda i: "(match m%d::E::from(x) { m%d::E::A(v) => v as u64, m%d::E::B(v) => v + (1 << 40), m%d::E::C(_) => 1 << 50 }, "
                                        "match m%d::E::from(y) { m%d::E::A(v) => v as u64, m%d::E::B(v) => v + (1 << 40), m%d::E::C(_) => 1 << 50 })" % ((i,) * 8), len(frv)),
                      "x: u8, y: u16 symbolic", "the variant built and its field are the same under every spelling (skip / ignore; one list / several attributes)",
                      ["impl/src/from.rs::expand (VariantAttribute)", "impl/src/utils.rs::attr::Skip"]))
    # ------------------------------------------------------------------ Into
    it = lambda w: ("#[derive(derive_more::Into, Clone, Copy)]\npub struct S { pub a: u8, #[into(%s)] pub b: u16, pub c: u32 }" % w)
    out.append(family("into_skip_field", [it("skip"), it("ignore")],
                      harness("        let a: u8 = kani::any();\n        let b: u16 = kani::any();\n        let c: u32 = kani::any();\n",
                              lambda i: "let t: (u8, u32) = m%d::S { a, b, c }.into(); t" % i, 2),
                      "all three fields symbolic", "the tuple produced by Into is the same under `skip` and `ignore`",
                      ["impl/src/into.rs::expand (FieldAttribute)", "impl/src/utils.rs::attr::Skip"]))
    into_t = ["#[derive(derive_more::Into, Clone, Copy)]\n#[into(u16, u32)]\npub struct S(pub u8);",
              "#[derive(derive_more::Into, Clone, Copy)]\n#[into(u16)]\n#[into(u32)]\npub struct S(pub u8);",
              "#[derive(derive_more::Into, Clone, Copy)]\n#[into(u32)]\n#[into(u16)]\npub struct S(pub u8);",
              "#[derive(derive_more::Into, Clone, Copy)]\n#[into(u16, u32,)]\npub struct S(pub u8);",
              "#[derive(derive_more::Into, Clone, Copy)]\n#[into(u16,)]\n#[into(u32)]\npub struct S(pub u8);",
              "#[derive(derive_more::Into, Clone, Copy)]\n#[into(owned(u16), owned(u32))]\npub struct S(pub u8);",
              "#[derive(derive_more::Into, Clone, Copy)]\n#[into(owned(u16,), owned(u32,),)]\npub struct S(pub u8);"]
    out.append(family("into_types", into_t,
                      harness("        let x: u8 = kani::any();\n", lambda i: "(u16::from(m%d::S(x)), u32::from(m%d::S(x)))" % (i, i), len(into_t)),
                      "x: u8 symbolic", "Into<u16> and Into<u32> give the same values under every spelling",
                      ["impl/src/into.rs::expand (StructAttribute / ConversionsAttribute merge)"]))
    into_k = ["#[derive(derive_more::Into)]\n#[into(owned, ref, ref_mut)]\npub struct S(pub u8, pub u16);",
              "#[derive(derive_more::Into)]\n#[into(owned)]\n#[into(ref)]\n#[into(ref_mut)]\npub struct S(pub u8, pub u16);",
              "#[derive(derive_more::Into)]\n#[into(ref_mut, owned)]\n#[into(ref,)]\npub struct S(pub u8, pub u16);"]
    out.append(family("into_kinds", into_k,
                      harness("        let x: u8 = kani::any();\n        let y: u16 = kani::any();\n        let w: u8 = kani::any();\n",
                              lambda i: ("let mut s = m%d::S(x, y); let o: (u8, u16) = m%d::S(x, y).into(); "
                                         "let same = { let r: (&u8, &u16) = (&s).into(); ptr::eq(r.0, &s.0) && ptr::eq(r.1, &s.1) }; "
                                         "{ let m: (&mut u8, &mut u16) = (&mut s).into(); *m.0 = w; } (o, same, s.0, s.1)") % (i, i), len(into_k)),
                      "both fields and the written value symbolic",
                      "owned / ref / ref_mut conversions exist under every spelling, the references are the fields themselves, a write lands in field 0",
                      ["impl/src/into.rs::expand (ConversionsAttribute merge)"]))
    # every pair of kinds: one list / two attributes / two attributes in the other order (three kinds at once hide a flag that leaks from one
    # kind into another while the attributes are merged - seed C17-into-ref-flag-merged-into-ref-mut)
    USE = {"owned": "let o: (u8, u16) = m%d::S(x, y).into();",
           "ref": "let same = { let r: (&u8, &u16) = (&s).into(); ptr::eq(r.0, &s.0) && ptr::eq(r.1, &s.1) };",
           "ref_mut": "{ let m: (&mut u8, &mut u16) = (&mut s).into(); *m.0 = w; }"}
    for k1, k2 in (("owned", "ref"), ("owned", "ref_mut"), ("ref", "ref_mut")):
        sp = ["#[derive(derive_more::Into)]\n#[into(%s, %s)]\npub struct S(pub u8, pub u16);" % (k1, k2),
              "#[derive(derive_more::Into)]\n#[into(%s)]\n#[into(%s)]\npub struct S(pub u8, pub u16);" % (k1, k2),
              "#[derive(derive_more::Into)]\n#[into(%s)]\n#[into(%s)]\npub struct S(pub u8, pub u16);" % (k2, k1)]
        out.append(family("into_kinds_%s_%s" % (k1, k2), sp,
                          harness("        let x: u8 = kani::any();\n        let y: u16 = kani::any();\n        let w: u8 = kani::any();\n",
                                  lambda i, k1=k1, k2=k2: ("let mut s = m%d::S(x, y); let o: (u8, u16) = (x, y); let same = true; " % i
                                                           + (USE[k1] % i if k1 == "owned" else USE[k1]) + " " + USE[k2] + " (o, same, s.0, s.1)"), 3),
                          "both fields and the written value symbolic",
                          "the two kinds of conversion exist under every spelling and act on the fields themselves",
                          ["impl/src/into.rs::ConversionsAttribute::merge_attrs"], quick=(k1, k2) != ("owned", "ref")))
    fo = lambda a1, a2: ("#[derive(derive_more::Into, Clone, Copy)]\n#[into]\npub struct S { %s %s pub a: u8, pub b: u16, pub c: u32 }" % (a1, a2))
    out.append(family("into_field_skip_and_conversion_order", [fo("#[into(skip)]", "#[into(ref)]"), fo("#[into(ref)]", "#[into(skip)]"), fo("#[into(ref)]", "#[into(ignore)]")],
                      harness("        let a: u8 = kani::any();\n        let b: u16 = kani::any();\n        let c: u32 = kani::any();\n",
                              lambda i: "let s = m%d::S { a, b, c }; let t: (u16, u32) = s.into(); let r: &u8 = (&s).into(); (t, ptr::eq(r, &s.a))" % i, 3),
                      "all three fields symbolic", "the struct-level tuple leaves the field out and the field's own ref conversion is the field, whatever the order of "
                      "`#[into(skip)]` and `#[into(ref)]` on it", ["impl/src/into.rs::FieldAttribute::merge_attrs"]))
    # ------------------------------------------------------------------ AsRef
    ar = lambda w: ("#[derive(derive_more::AsRef, derive_more::AsMut)]\npub struct S { #[as_ref(%s)] #[as_mut(%s)] pub a: u8, pub b: u16 }" % (w, w))
    out.append(family("as_ref_skip_field", [ar("skip"), ar("ignore")],
                      harness("        let a: u8 = kani::any();\n        let b: u16 = kani::any();\n        let w: u16 = kani::any();\n",
                              lambda i: ("let mut s = m%d::S { a, b }; let same = ptr::eq::<u16>(s.as_ref(), &s.b); { let m: &mut u16 = s.as_mut(); *m = w; } "
                                         "(same, s.a, s.b)") % i, 2),
                      "both fields and the written value symbolic", "AsRef / AsMut go to field `b` itself under `skip` and under `ignore`",
                      ["impl/src/as/mod.rs::expand (FieldAttribute)", "impl/src/utils.rs::attr::Skip"]))
    art = ["#[derive(derive_more::AsRef)]\n#[as_ref(u32, [u8; 3])]\npub struct S(pub Inner);",
           "#[derive(derive_more::AsRef)]\n#[as_ref(u32)]\n#[as_ref([u8; 3])]\npub struct S(pub Inner);",
           "#[derive(derive_more::AsRef)]\n#[as_ref([u8; 3])]\n#[as_ref(u32)]\npub struct S(pub Inner);",
           "#[derive(derive_more::AsRef)]\n#[as_ref(u32, [u8; 3],)]\npub struct S(pub Inner);",
           "#[derive(derive_more::AsRef)]\n#[as_ref(u32,)]\n#[as_ref([u8; 3])]\npub struct S(pub Inner);"]
    out.append(family("as_ref_types", art,
                      harness("        let inner = any_inner();\n",
                              lambda i: ("let s = m%d::S(inner); (ptr::eq::<u32>(s.as_ref(), &s.0.tag), ptr::eq::<[u8; 3]>(s.as_ref(), &s.0.items))") % i, len(art)),
                      "the field's contents symbolic", "AsRef<u32> / AsRef<[u8; 3]> are the field's own results under every spelling",
                      ["impl/src/as/mod.rs::expand (StructAttribute / Types merge)"]))
    # ------------------------------------------------------------------ order of independent attributes of different derives
    de = ["#[derive(derive_more::Deref, derive_more::DerefMut)]\npub struct S { pub a: u8, #[deref] #[deref_mut] pub b: Inner }",
          "#[derive(derive_more::DerefMut, derive_more::Deref)]\npub struct S { pub a: u8, #[deref_mut] #[deref] pub b: Inner }"]
    out.append(family("deref_attr_order", de,
                      harness("        let a: u8 = kani::any();\n        let inner = any_inner();\n        let w: u32 = kani::any();\n",
                              lambda i: ("let mut s = m%d::S { a, b: inner }; let same = ptr::eq::<Inner>(&*s, &s.b); { let m: &mut Inner = &mut *s; m.tag = w; } "
                                         "(same, s.a, s.b.tag, s.b.items)") % i, 2),
                      "fields and the written value symbolic", "Deref / DerefMut select field `b` whatever the order of the two attributes",
                      ["impl/src/deref.rs::expand", "impl/src/deref_mut.rs::expand", "impl/src/utils.rs::State"]))
    ti = ["#[derive(derive_more::TryInto, Clone, Copy)]\n#[try_into(owned, ref)]\npub enum E { A(u8), B(u16) }",
          "#[derive(derive_more::TryInto, Clone, Copy)]\n#[try_into(ref, owned)]\npub enum E { A(u8), B(u16) }"]
    out.append(family("try_into_kinds_order", ti,
                      harness("        let x: u8 = kani::any();\n        let y: u16 = kani::any();\n        let sel: bool = kani::any();\n",
                              lambda i: ("let e = if sel { m%d::E::A(x) } else { m%d::E::B(y) }; "
                                         "(u8::try_from(e).ok(), u16::try_from(e).ok(), <&u8>::try_from(&e).ok().map(|r| *r), <&u16>::try_from(&e).ok().map(|r| *r))") % (i, i), 2),
                      "variant and both payloads symbolic", "owned and ref TryFrom impls answer the same whatever the order inside the attribute",
                      ["impl/src/try_into.rs::expand", "impl/src/utils.rs::parse_punctuated_nested_meta"]))
    uw = ["#[derive(derive_more::Unwrap, Clone, Copy)]\n#[unwrap(ref, ref_mut)]\npub enum E { A(u8), B(u16) }",
          "#[derive(derive_more::Unwrap, Clone, Copy)]\n#[unwrap(ref_mut, ref)]\npub enum E { A(u8), B(u16) }"]
    out.append(family("unwrap_kinds_order", uw,
                      harness("        let x: u8 = kani::any();\n        let w: u8 = kani::any();\n",
                              lambda i: ("let mut e = m%d::E::A(x); let a = *e.unwrap_a_ref(); { *e.unwrap_a_mut() = w; } (a, e.unwrap_a())") % i, 2),
                      "payload and written value symbolic", "ref and ref_mut accessors exist and act on the payload whatever the order inside the attribute",
                      ["impl/src/unwrap.rs::expand", "impl/src/utils.rs::parse_punctuated_nested_meta"], quick=False))
    tf = ["#[derive(derive_more::TryFrom, Clone, Copy, PartialEq)]\n#[repr(u8)]\n#[try_from(repr)]\npub enum E { A = 1, B = 5, C }",
          "#[derive(derive_more::TryFrom, Clone, Copy, PartialEq)]\n#[try_from(repr)]\n#[repr(u8)]\npub enum E { A = 1, B = 5, C }",
          # the integer type at each position of a #[repr(..)] list, and split over two #[repr] attributes (seed C17-repr-int-reset-by-later-arg)
          "#[derive(derive_more::TryFrom, Clone, Copy, PartialEq)]\n#[try_from(repr)]\n#[repr(u8, align(2))]\npub enum E { A = 1, B = 5, C }",
          "#[derive(derive_more::TryFrom, Clone, Copy, PartialEq)]\n#[try_from(repr)]\n#[repr(align(2), u8)]\npub enum E { A = 1, B = 5, C }",
          "#[derive(derive_more::TryFrom, Clone, Copy, PartialEq)]\n#[repr(align(2))]\n#[try_from(repr)]\n#[repr(u8)]\npub enum E { A = 1, B = 5, C }",
          "#[derive(derive_more::TryFrom, Clone, Copy, PartialEq)]\n#[repr(u8,)]\n#[repr(align(2))]\n#[try_from(repr)]\npub enum E { A = 1, B = 5, C }"]
    out.append(family("try_from_repr_order", tf,
                      harness("        let n: u8 = kani::any();\n", lambda i: "m%d::E::try_from(n).ok().map(|v| v as u8)" % i, len(tf)),
                      "n: u8 symbolic (all 256 values)", "TryFrom<u8> answers the same whether #[repr] precedes or follows #[try_from(repr)]",
                      ["impl/src/try_from.rs::expand", "impl/src/utils.rs::attr::ReprInt"]))
    return out


# ---------------------------------------------------------------------------------------------------------------- rejection half
ERR = "#[derive(Debug, derive_more::Display, derive_more::Error)] #[display(\"x\")] "
REJECT = [
    # (name, class, program)
    # unknown arguments
    ("unk_debug_field", "unknown", "#[derive(derive_more::Debug)] pub struct S { #[debug(skipp)] a: u8 }"),
    ("unk_debug_struct", "unknown", "#[derive(derive_more::Debug)] #[debug(boundz(u8: Copy))] pub struct S { a: u8 }"),
    ("unk_display_struct", "unknown", "#[derive(derive_more::Display)] #[display(bounded(u8: Copy))] pub struct S(u8);"),
    ("unk_from_struct", "unknown", "#[derive(derive_more::From)] #[from(forwardd())] pub struct S(u8);"),
    ("unk_from_variant", "unknown", "#[derive(derive_more::From)] pub enum E { #[from(skipp())] A(u8), B(u16) }"),
    ("unk_into_struct", "unknown", "#[derive(derive_more::Into)] #[into(owned, borrowed)] pub struct S { a: u8 }"),
    ("unk_as_ref_field", "unknown", "#[derive(derive_more::AsRef)] pub struct S { #[as_ref(forwardd())] a: u8, b: u16 }"),
    ("unk_error_field", "unknown", ERR + "pub struct S { #[error(sauce)] a: u8 }"),
    ("unk_deref", "unknown", "#[derive(derive_more::Deref)] #[deref(forwards)] pub struct S(Box<u8>);"),
    ("unk_try_from", "unknown", "#[derive(derive_more::TryFrom)] #[try_from(reprr)] pub enum E { A, B }"),
    ("unk_is_variant", "unknown", "#[derive(derive_more::IsVariant)] pub enum E { #[is_variant(ignored)] A, B }"),
    ("unk_unwrap", "unknown", "#[derive(derive_more::Unwrap)] #[unwrap(refs)] pub enum E { A(u8), B }"),
    ("unk_try_into", "unknown", "#[derive(derive_more::TryInto)] #[try_into(owned, refs)] pub enum E { A(u8), B(u16) }"),
    ("unk_mul", "unknown", "#[derive(derive_more::Mul)] #[mul(forwards)] pub struct S(u8);"),
    ("unk_into_iterator", "unknown", "#[derive(derive_more::IntoIterator)] #[into_iterator(owned, refs)] pub struct S(Vec<u8>);"),
    ("unk_index", "unknown", "#[derive(derive_more::Index)] pub struct S { #[index(skip)] a: Vec<u8>, b: u8 }"),
    ("unk_display_rename", "unknown", "#[derive(derive_more::Display)] #[display(rename_all = \"bogus\")] pub enum E { A, B }"),
    # duplicated where only one is allowed
    ("dup_debug_skip", "duplicate", "#[derive(derive_more::Debug)] pub struct S { #[debug(skip)] #[debug(skip)] a: u8, b: u8 }"),
    ("dup_debug_skip_ignore", "duplicate", "#[derive(derive_more::Debug)] pub struct S { #[debug(skip)] #[debug(ignore)] a: u8, b: u8 }"),
    ("dup_debug_fmt", "duplicate", "#[derive(derive_more::Debug)] pub struct S { #[debug(\"x\")] #[debug(\"y\")] a: u8 }"),
    ("dup_display_fmt", "duplicate", "#[derive(derive_more::Display)] #[display(\"x\")] #[display(\"y\")] pub struct S(u8);"),
    ("dup_display_variant", "duplicate", "#[derive(derive_more::Display)] pub enum E { #[display(\"x\")] #[display(\"y\")] A }"),
    ("dup_display_rename", "duplicate", "#[derive(derive_more::Display)] #[display(rename_all = \"snake_case\")] #[display(rename_all = \"UPPERCASE\")] pub enum E { A, B }"),
    ("dup_from_forward", "duplicate", "#[derive(derive_more::From)] #[from(forward)] #[from(forward)] pub struct S(u8);"),
    ("dup_from_skip", "duplicate", "#[derive(derive_more::From)] pub enum E { #[from(skip)] #[from(skip)] A(u8), B(u16) }"),
    ("dup_into_skip", "duplicate", "#[derive(derive_more::Into)] pub struct S { #[into(skip)] #[into(skip)] a: u8, b: u16 }"),
    ("dup_as_ref_skip", "duplicate", "#[derive(derive_more::AsRef)] pub struct S { #[as_ref(skip)] #[as_ref(skip)] a: u8, b: u16 }"),
    ("dup_as_ref_forward", "duplicate", "#[derive(derive_more::AsRef)] #[as_ref(forward)] #[as_ref(forward)] pub struct S(Vec<u8>);"),
    ("dup_as_ref_plain", "duplicate", "#[derive(derive_more::AsRef)] pub struct S { #[as_ref] #[as_ref] a: u8, b: u16 }"),
    ("dup_error_source", "duplicate", ERR + "pub struct S { #[error(source)] #[error(source)] a: std::io::Error }"),
    ("dup_try_from_repr", "duplicate", "#[derive(derive_more::TryFrom)] #[try_from(repr)] #[try_from(repr)] pub enum E { A, B }"),
    ("dup_deref", "duplicate", "#[derive(derive_more::Deref)] pub struct S { #[deref] #[deref] a: u8, b: u8 }"),
    ("dup_is_variant_ignore", "duplicate", "#[derive(derive_more::IsVariant)] pub enum E { #[is_variant(ignore)] #[is_variant(ignore)] A, B }"),
    ("dup_error_source_in_one", "duplicate", ERR + "pub struct S { #[error(source, source)] a: std::io::Error }"),
    ("dup_deref_forward_in_one", "duplicate", "#[derive(derive_more::Deref)] #[deref(forward, forward)] pub struct S(Box<u8>);"),
    ("dup_unwrap_ref_in_one", "duplicate", "#[derive(derive_more::Unwrap)] #[unwrap(ref, ref)] pub enum E { A(u8), B }"),
    ("dup_try_into_owned_in_one", "duplicate", "#[derive(derive_more::TryInto)] #[try_into(owned, owned)] pub enum E { A(u8), B(u16) }"),
    ("dup_mul_forward_in_one", "duplicate", "#[derive(derive_more::Mul)] #[mul(forward, forward)] pub struct S(u8);"),
    # meaningless for that item kind
    ("kind_debug_skip_struct", "item-kind", "#[derive(derive_more::Debug)] #[debug(skip)] pub struct S { a: u8 }"),
    ("kind_debug_skip_variant", "item-kind", "#[derive(derive_more::Debug)] pub enum E { #[debug(skip)] A(u8), B }"),
    ("kind_debug_fmt_enum", "item-kind", "#[derive(derive_more::Debug)] #[debug(\"x\")] pub enum E { A(u8), B }"),
    ("kind_debug_bound_field", "item-kind", "#[derive(derive_more::Debug)] pub struct S<T> { #[debug(bound(T: Copy))] a: T }"),
    ("kind_debug_bound_variant", "item-kind", "#[derive(derive_more::Debug)] pub enum E<T> { #[debug(bound(T: core::fmt::Debug))] A(T), B }"),
    ("kind_as_ref_enum", "item-kind", "#[derive(derive_more::AsRef)] pub enum E { A(u8) }"),
    ("kind_as_ref_forward_struct_multi", "item-kind", "#[derive(derive_more::AsRef)] #[as_ref(forward)] pub struct S { a: u8, b: u16 }"),
    ("kind_as_ref_types_struct_multi", "item-kind", "#[derive(derive_more::AsRef)] #[as_ref(u8)] pub struct S { a: u8, b: u16 }"),
    ("kind_into_enum", "item-kind", "#[derive(derive_more::Into)] pub enum E { A(u8) }"),
    ("kind_try_from_struct", "item-kind", "#[derive(derive_more::TryFrom)] #[try_from(repr)] pub struct S(u8);"),
    ("kind_error_source_struct", "item-kind", ERR + "#[error(source)] pub struct S { a: std::io::Error }"),
    ("kind_error_source_variant", "item-kind", ERR + "pub enum E { #[error(source)] A(std::io::Error) }"),
    # pre-1.0 legacy syntax
    ("leg_display_fmt", "legacy", "#[derive(derive_more::Display)] #[display(fmt = \"x\")] pub struct S(u8);"),
    ("leg_display_fmt_args", "legacy", "#[derive(derive_more::Display)] #[display(fmt = \"{}\", \"_0\")] pub struct S(u8);"),
    ("leg_display_bound", "legacy", "#[derive(derive_more::Display)] #[display(\"{_0}\")] #[display(bound = \"T: core::fmt::Display\")] pub struct S<T>(T);"),
    ("leg_debug_fmt", "legacy", "#[derive(derive_more::Debug)] pub struct S { #[debug(fmt = \"x\")] a: u8 }"),
    ("leg_debug_bound", "legacy", "#[derive(derive_more::Debug)] #[debug(bound = \"T: core::fmt::Debug\")] pub struct S<T>(T);"),
    ("leg_from_types", "legacy", "#[derive(derive_more::From)] #[from(types(u8, u16))] pub struct S(u32);"),
    ("leg_from_types_str", "legacy", "#[derive(derive_more::From)] #[from(types(\"u8\"))] pub struct S(u32);"),
    ("leg_from_ignore_kv", "legacy", "#[derive(derive_more::From)] pub enum E { #[from(ignore = true)] A(u8), B(u16) }"),
    ("leg_into_types", "legacy", "#[derive(derive_more::Into)] #[into(types(u16))] pub struct S(u8);"),
    ("leg_into_owned_types", "legacy", "#[derive(derive_more::Into)] #[into(owned(types(u16)))] pub struct S(u8);"),
    ("leg_into_owned_kv", "legacy", "#[derive(derive_more::Into)] #[into(owned = true)] pub struct S(u8);"),
    ("leg_error_kv", "legacy", ERR + "pub struct S { #[error(source = true)] a: std::io::Error }"),
    ("leg_deref_kv", "legacy", "#[derive(derive_more::Deref)] #[deref(forward = true)] pub struct S(Box<u8>);"),
    ("leg_as_ref_kv", "legacy", "#[derive(derive_more::AsRef)] #[as_ref(forward = true)] pub struct S(Vec<u8>);"),
    ("leg_display_namevalue", "legacy", "#[derive(derive_more::Display)] #[display = \"x\"] pub struct S(u8);"),
    ("leg_debug_namevalue", "legacy", "#[derive(derive_more::Debug)] pub struct S { #[debug = \"x\"] a: u8 }"),
    ("leg_from_namevalue", "legacy", "#[derive(derive_more::From)] #[from = \"u8\"] pub struct S(u16);"),
    ("leg_deref_namevalue", "legacy", "#[derive(derive_more::Deref)] #[deref = \"forward\"] pub struct S(Box<u8>);"),
    # contradicting another argument on the same item
    ("con_from_skip_forward", "contradiction", "#[derive(derive_more::From)] pub enum E { #[from(skip)] #[from(forward)] A(u8), B(u16) }"),
    ("con_from_skip_types", "contradiction", "#[derive(derive_more::From)] pub enum E { #[from(skip)] #[from(u8)] A(u16), B(u32) }"),
    ("con_from_types_forward", "contradiction", "#[derive(derive_more::From)] #[from(u8)] #[from(forward)] pub struct S(u16);"),
    ("con_from_skip_plain", "contradiction", "#[derive(derive_more::From)] pub enum E { #[from] #[from(skip)] A(u16), B(u32) }"),
    ("con_debug_skip_fmt", "contradiction", "#[derive(derive_more::Debug)] pub struct S { #[debug(skip)] #[debug(\"x\")] a: u8, b: u8 }"),
    ("con_error_source_not", "contradiction", ERR + "pub struct S { #[error(source)] #[error(not(source))] a: std::io::Error }"),
    ("con_error_source_not_in_one", "contradiction", ERR + "pub struct S { #[error(source, not(source))] a: std::io::Error }"),
    ("con_error_not_source_source_in_one", "contradiction", ERR + "pub struct S { #[error(not(source), source)] a: std::io::Error }"),
    ("con_error_source_ignore", "contradiction", ERR + "pub struct S { #[error(source)] #[error(ignore)] a: std::io::Error }"),
    ("con_deref_forward_not_forward", "contradiction", "#[derive(derive_more::Deref)] #[deref(forward, not(forward))] pub struct S(Box<u8>);"),
    ("con_deref_mark_ignore", "contradiction", "#[derive(derive_more::Deref)] pub struct S { #[deref] #[deref(ignore)] a: u8, b: u8 }"),
    ("con_as_ref_forward_skip", "contradiction", "#[derive(derive_more::AsRef)] pub struct S { #[as_ref(forward)] #[as_ref(skip)] a: Vec<u8>, b: u8 }"),
    ("con_as_ref_plain_skip", "contradiction", "#[derive(derive_more::AsRef)] pub struct S { #[as_ref] #[as_ref(skip)] a: Vec<u8>, b: u8 }"),
    ("con_as_ref_struct_and_field", "contradiction", "#[derive(derive_more::AsRef)] #[as_ref(forward)] pub struct S { #[as_ref] a: Vec<u8> }"),
    ("con_as_ref_mark_and_skip_mixed", "contradiction", "#[derive(derive_more::AsRef)] pub struct S { #[as_ref] a: Vec<u8>, #[as_ref(skip)] b: u8 }"),
    ("con_as_ref_forward_types", "contradiction", "#[derive(derive_more::AsRef)] #[as_ref(forward)] #[as_ref([u8])] pub struct S(Vec<u8>);"),
    # the same contradictions with the two arguments in the other order (a check that runs after a parsing loop must not depend on the order)
    ("con_from_forward_skip", "contradiction", "#[derive(derive_more::From)] pub enum E { #[from(forward)] #[from(skip)] A(u8), B(u16) }"),
    ("con_from_types_skip", "contradiction", "#[derive(derive_more::From)] pub enum E { #[from(u8)] #[from(skip)] A(u16), B(u32) }"),
    ("con_from_forward_types", "contradiction", "#[derive(derive_more::From)] #[from(forward)] #[from(u8)] pub struct S(u16);"),
    ("con_from_skip_then_plain", "contradiction", "#[derive(derive_more::From)] pub enum E { #[from(skip)] #[from] A(u16), B(u32) }"),
    ("con_debug_fmt_skip", "contradiction", "#[derive(derive_more::Debug)] pub struct S { #[debug(\"x\")] #[debug(skip)] a: u8, b: u8 }"),
    ("con_error_not_source_then_source", "contradiction", ERR + "pub struct S { #[error(not(source))] #[error(source)] a: std::io::Error }"),
    ("con_as_ref_skip_forward", "contradiction", "#[derive(derive_more::AsRef)] pub struct S { #[as_ref(skip)] #[as_ref(forward)] a: Vec<u8>, b: u8 }"),
    ("con_as_ref_skip_plain", "contradiction", "#[derive(derive_more::AsRef)] pub struct S { #[as_ref(skip)] #[as_ref] a: Vec<u8>, b: u8 }"),
    ("con_as_ref_types_forward", "contradiction", "#[derive(derive_more::AsRef)] #[as_ref([u8])] #[as_ref(forward)] pub struct S(Vec<u8>);"),
    ("con_as_ref_skip_and_mark_mixed", "contradiction", "#[derive(derive_more::AsRef)] pub struct S { #[as_ref(skip)] a: Vec<u8>, #[as_ref] b: u8 }"),
    # Into: plain types mixed with owned(..) / ref(..) / ref_mut(..) in one attribute, in every order
    ("con_into_plain_then_ref", "contradiction", "#[derive(derive_more::Into)] #[into(u16, ref)] pub struct S(u8);"),
    ("con_into_ref_then_plain", "contradiction", "#[derive(derive_more::Into)] #[into(ref, u16)] pub struct S(u8);"),
    ("con_into_plain_then_owned_types", "contradiction", "#[derive(derive_more::Into)] #[into(u16, owned(u32))] pub struct S(u8);"),
    ("con_into_owned_types_then_plain", "contradiction", "#[derive(derive_more::Into)] #[into(owned(u32), u16)] pub struct S(u8);"),
    ("con_into_plain_then_ref_mut_types", "contradiction", "#[derive(derive_more::Into)] #[into(u16, ref_mut(u8))] pub struct S(u8);"),
    ("con_into_field_plain_then_ref", "contradiction", "#[derive(derive_more::Into)] pub struct S { #[into(u16, ref)] a: u8, b: u8 }"),
    # duplicates with the spellings mixed / in the other order
    ("dup_debug_ignore_skip", "duplicate", "#[derive(derive_more::Debug)] pub struct S { #[debug(ignore)] #[debug(skip)] a: u8, b: u8 }"),
    ("dup_from_skip_ignore", "duplicate", "#[derive(derive_more::From)] pub enum E { #[from(skip)] #[from(ignore)] A(u8), B(u16) }"),
    ("dup_into_ignore_skip", "duplicate", "#[derive(derive_more::Into)] pub struct S { #[into(ignore)] #[into(skip)] a: u8, b: u16 }"),
    ("dup_as_ref_ignore_skip", "duplicate", "#[derive(derive_more::AsRef)] pub struct S { #[as_ref(ignore)] #[as_ref(skip)] a: u8, b: u16 }"),
    ("dup_display_fmt_after_bound", "duplicate", "#[derive(derive_more::Display)] #[display(\"x\")] #[display(bound(u8: Copy))] #[display(\"y\")] pub struct S(u8);"),
    ("dup_display_rename_after_fmt", "duplicate", "#[derive(derive_more::Display)] #[display(rename_all = \"snake_case\")] #[display(\"x\")] #[display(rename_all = \"UPPERCASE\")] pub enum E { A, B }"),
    # several #[into(kind)] attributes must not generate a kind that none of them names
    ("absent_into_ref_mut_with_owned_ref_one_list", "absent-impl", "#[derive(derive_more::Into)] #[into(owned, ref)] pub struct S(u8); pub fn f(s: &mut S) -> &mut u8 { s.into() }"),
    ("absent_into_ref_mut_with_owned_ref_two_attrs", "absent-impl", "#[derive(derive_more::Into)] #[into(owned)] #[into(ref)] pub struct S(u8); pub fn f(s: &mut S) -> &mut u8 { s.into() }"),
    ("absent_into_ref_mut_with_owned_ref_two_attrs_rev", "absent-impl", "#[derive(derive_more::Into)] #[into(ref)] #[into(owned)] pub struct S(u8); pub fn f(s: &mut S) -> &mut u8 { s.into() }"),
    ("absent_into_ref_with_owned_ref_mut_one_list", "absent-impl", "#[derive(derive_more::Into)] #[into(owned, ref_mut)] pub struct S(u8); pub fn f(s: &S) -> &u8 { s.into() }"),
    ("absent_into_ref_with_owned_ref_mut_two_attrs", "absent-impl", "#[derive(derive_more::Into)] #[into(owned)] #[into(ref_mut)] pub struct S(u8); pub fn f(s: &S) -> &u8 { s.into() }"),
    ("absent_into_ref_with_owned_ref_mut_two_attrs_rev", "absent-impl", "#[derive(derive_more::Into)] #[into(ref_mut)] #[into(owned)] pub struct S(u8); pub fn f(s: &S) -> &u8 { s.into() }"),
    ("absent_into_owned_with_ref_ref_mut_one_list", "absent-impl", "#[derive(derive_more::Into)] #[into(ref, ref_mut)] pub struct S(u8); pub fn f(s: S) -> u8 { s.into() }"),
    ("absent_into_owned_with_ref_ref_mut_two_attrs", "absent-impl", "#[derive(derive_more::Into)] #[into(ref)] #[into(ref_mut)] pub struct S(u8); pub fn f(s: S) -> u8 { s.into() }"),
    ("absent_into_owned_with_ref_ref_mut_two_attrs_rev", "absent-impl", "#[derive(derive_more::Into)] #[into(ref_mut)] #[into(ref)] pub struct S(u8); pub fn f(s: S) -> u8 { s.into() }"),
    # a wrong argument in a position that only one code path looks at: a field under a container / variant format, the second field or
    # variant, something next to an ignored sibling (seed C17-debug-field-attr-errors-dropped-under-container-fmt)
    ("pos_add_assign_attr", "position", '#[derive(derive_more::MulAssign)] #[mul_assign(forwards)] pub struct S(u8);'),
    ("pos_as_mut_second_field_bad", "position", '#[derive(derive_more::AsMut)] pub struct S { #[as_mut(skip)] a: u8, #[as_mut(forward = true)] b: u16, c: u32 }'),
    ("pos_as_ref_second_field_bad", "position", '#[derive(derive_more::AsRef)] pub struct S { #[as_ref] a: u8, #[as_ref(forward = true)] b: u16 }'),
    ("pos_dbg_cfmt_dup_skip_field", "position", '#[derive(derive_more::Debug)] #[debug("{a}")] pub struct S { #[debug(skip)] #[debug(ignore)] a: u8 }'),
    ("pos_dbg_cfmt_fmt_field", "position", '#[derive(derive_more::Debug)] #[debug("{a}")] pub struct S { #[debug("{a:?}")] a: u8 }'),
    ("pos_dbg_cfmt_legacy_field", "position", '#[derive(derive_more::Debug)] #[debug("{a}")] pub struct S { #[debug(fmt = "{}", a)] a: u8 }'),
    ("pos_dbg_cfmt_skip_fmt_field", "position", '#[derive(derive_more::Debug)] #[debug("{a}")] pub struct S { #[debug(skip)] #[debug("{a:?}")] a: u8 }'),
    ("pos_dbg_cfmt_unknown_field", "position", '#[derive(derive_more::Debug)] #[debug("{a}")] pub struct S { #[debug(unknown)] a: u8 }'),
    ("pos_dbg_enum_unknown_in_second_variant", "position", '#[derive(derive_more::Debug)] pub enum E { A(u8), B { #[debug(unknown)] x: u8 } }'),
    ("pos_dbg_skip_all_unknown", "position", '#[derive(derive_more::Debug)] pub struct S { #[debug(skip)] a: u8, #[debug(unknown)] b: u8 }'),
    ("pos_dbg_tuple_unknown_second", "position", '#[derive(derive_more::Debug)] pub struct S(u8, #[debug(unknown)] u8);'),
    ("pos_dbg_unit_struct_fmt_dup", "position", '#[derive(derive_more::Debug)] #[debug("x")] #[debug("y")] pub struct S;'),
    ("pos_dbg_vfmt_dup_skip_field", "position", '#[derive(derive_more::Debug)] pub enum E { #[debug("{_0}")] A(#[debug(skip)] #[debug(skip)] u8), B }'),
    ("pos_dbg_vfmt_legacy_field", "position", '#[derive(derive_more::Debug)] pub enum E { #[debug("{a}")] A { #[debug(fmt = "x")] a: u8 }, B }'),
    ("pos_dbg_vfmt_unknown_field", "position", '#[derive(derive_more::Debug)] pub enum E { #[debug("{_0}")] A(#[debug(unknown)] u8), B }'),
    ("pos_deref_ignored_field_bad_other", "position", '#[derive(derive_more::Deref)] pub struct S { #[deref(ignore)] a: u8, #[deref(bogus)] b: u8 }'),
    ("pos_deref_mut_bad", "position", '#[derive(derive_more::Deref, derive_more::DerefMut)] pub struct S { #[deref] #[deref_mut(bogus)] a: u8, b: u8 }'),
    ("pos_disp_enum_shared_and_variant_dup", "position", '#[derive(derive_more::Display)] #[display("<{_variant}>")] pub enum E { #[display("x")] #[display("y")] A, B }'),
    ("pos_disp_second_variant_unknown", "position", '#[derive(derive_more::Display)] pub enum E { #[display("a")] A, #[display(unknown)] B }'),
    ("pos_disp_variant_legacy", "position", '#[derive(derive_more::Display)] pub enum E { #[display(fmt = "x")] A, B }'),
    ("pos_disp_variant_unknown", "position", '#[derive(derive_more::Display)] pub enum E { #[display(unknown)] A, B }'),
    ("pos_err_enum_ignore_bad_variant", "position", '#[derive(Debug, derive_more::Display, derive_more::Error)] #[display("x")] #[error(ignore)] pub enum E { #[error(sauce)] A { a: u8 }, B }'),
    ("pos_err_second_field_bad", "position", '#[derive(Debug, derive_more::Display, derive_more::Error)] #[display("x")] pub struct S { #[error(source)] a: std::io::Error, #[error(sauce)] b: u8 }'),
    ("pos_err_struct_ignore_bad_field", "position", '#[derive(Debug, derive_more::Display, derive_more::Error)] #[display("x")] #[error(ignore)] pub struct S { #[error(sauce)] a: u8 }'),
    ("pos_err_variant_ignore_bad_field", "position", '#[derive(Debug, derive_more::Display, derive_more::Error)] #[display("x")] pub enum E { #[error(ignore)] A { #[error(sauce)] a: u8 }, B }'),
    ("pos_from_second_variant_bad", "position", '#[derive(derive_more::From)] pub enum E { A(u8), #[from(bogus = 1)] B(u16) }'),
    ("pos_from_skipped_then_bad", "position", '#[derive(derive_more::From)] pub enum E { #[from(skip)] A(u8), #[from(types(u8))] B(u16) }'),
    ("pos_index_bad_second", "position", '#[derive(derive_more::Index)] pub struct S { #[index] a: Vec<u8>, #[index(bogus)] b: u8 }'),
    ("pos_into_iter_bad_second", "position", '#[derive(derive_more::IntoIterator)] pub struct S { #[into_iterator] a: Vec<u8>, #[into_iterator(bogus)] b: u8 }'),
    ("pos_into_skipped_field_then_bad", "position", '#[derive(derive_more::Into)] pub struct S { #[into(skip)] a: u8, #[into(types(u16))] b: u8 }'),
    ("pos_into_struct_skip_fields_bad", "position", '#[derive(derive_more::Into)] #[into(ref)] pub struct S { a: u8, #[into(owned = true)] b: u8 }'),
    ("pos_isv_ignored_enum_bad_variant", "position", '#[derive(derive_more::IsVariant)] #[is_variant(ignore)] pub enum E { #[is_variant(bogus)] A, B }'),
    ("pos_isv_last_variant_bad", "position", '#[derive(derive_more::IsVariant)] pub enum E { A, B, #[is_variant(bogus)] C }'),
    ("pos_mul_field_bad", "position", '#[derive(derive_more::Mul)] #[mul(forward)] pub struct S { #[mul(bogus)] a: u8 }'),
    ("pos_try_into_ignored_variant_bad_field", "position", '#[derive(derive_more::TryInto)] pub enum E { #[try_into(ignore)] A(#[try_into(bogus)] u8), B(u16) }'),
    ("pos_try_into_last_variant_bad", "position", '#[derive(derive_more::TryInto)] pub enum E { A(u8), #[try_into(bogus)] B(u16) }'),
    ("pos_try_unwrap_last_variant_bad", "position", '#[derive(derive_more::TryUnwrap)] pub enum E { A(u8), #[try_unwrap(bogus)] B(u16) }'),
    ("pos_unwrap_ignored_variant_bad_field", "position", '#[derive(derive_more::Unwrap)] pub enum E { #[unwrap(ignore)] A(#[unwrap(bogus)] u8), B(u16) }'),
    ("pos_unwrap_last_variant_bad", "position", '#[derive(derive_more::Unwrap)] pub enum E { A(u8), #[unwrap(bogus)] B(u16) }'),
    # every predicate of every bound(..) attribute of an item is part of the impl, whether they come in one list or in several attributes and whether
    # or not two of them bound the same type (seed C17-bounds-deduped-by-type-across-attrs): the impl must not exist for a type meeting only the first
    ("absent_display_impl_second_bound_one_list", "absent-impl", "pub trait A1 {} pub trait B1 {} pub struct OnlyA; impl A1 for OnlyA {} impl core::fmt::Display for OnlyA { fn fmt(&self, f: &mut core::fmt::Formatter<'_>) -> core::fmt::Result { f.write_str(\"a\") } } impl core::fmt::Debug for OnlyA { fn fmt(&self, f: &mut core::fmt::Formatter<'_>) -> core::fmt::Result { f.write_str(\"a\") } } #[derive(derive_more::Display)] #[display(bound(T: A1, T: B1))] #[display(\"{_0}\")] pub struct S<T>(pub T); pub fn f(s: &S<OnlyA>) -> &dyn core::fmt::Display { s }"),
    ("absent_display_impl_second_bound_two_attrs", "absent-impl", "pub trait A1 {} pub trait B1 {} pub struct OnlyA; impl A1 for OnlyA {} impl core::fmt::Display for OnlyA { fn fmt(&self, f: &mut core::fmt::Formatter<'_>) -> core::fmt::Result { f.write_str(\"a\") } } impl core::fmt::Debug for OnlyA { fn fmt(&self, f: &mut core::fmt::Formatter<'_>) -> core::fmt::Result { f.write_str(\"a\") } } #[derive(derive_more::Display)] #[display(bound(T: A1))] #[display(bound(T: B1))] #[display(\"{_0}\")] pub struct S<T>(pub T); pub fn f(s: &S<OnlyA>) -> &dyn core::fmt::Display { s }"),
    ("absent_display_impl_second_bound_two_attrs_rev", "absent-impl", "pub trait A1 {} pub trait B1 {} pub struct OnlyA; impl A1 for OnlyA {} impl core::fmt::Display for OnlyA { fn fmt(&self, f: &mut core::fmt::Formatter<'_>) -> core::fmt::Result { f.write_str(\"a\") } } impl core::fmt::Debug for OnlyA { fn fmt(&self, f: &mut core::fmt::Formatter<'_>) -> core::fmt::Result { f.write_str(\"a\") } } #[derive(derive_more::Display)] #[display(bound(T: B1))] #[display(bound(T: A1))] #[display(\"{_0}\")] pub struct S<T>(pub T); pub fn f(s: &S<OnlyA>) -> &dyn core::fmt::Display { s }"),
    ("absent_display_impl_second_bound_around_fmt", "absent-impl", "pub trait A1 {} pub trait B1 {} pub struct OnlyA; impl A1 for OnlyA {} impl core::fmt::Display for OnlyA { fn fmt(&self, f: &mut core::fmt::Formatter<'_>) -> core::fmt::Result { f.write_str(\"a\") } } impl core::fmt::Debug for OnlyA { fn fmt(&self, f: &mut core::fmt::Formatter<'_>) -> core::fmt::Result { f.write_str(\"a\") } } #[derive(derive_more::Display)] #[display(bound(T: A1))] #[display(\"{_0}\")] #[display(bounds(T: B1))] pub struct S<T>(pub T); pub fn f(s: &S<OnlyA>) -> &dyn core::fmt::Display { s }"),
    ("absent_debug_impl_second_bound_one_list", "absent-impl", "pub trait A1 {} pub trait B1 {} pub struct OnlyA; impl A1 for OnlyA {} impl core::fmt::Display for OnlyA { fn fmt(&self, f: &mut core::fmt::Formatter<'_>) -> core::fmt::Result { f.write_str(\"a\") } } impl core::fmt::Debug for OnlyA { fn fmt(&self, f: &mut core::fmt::Formatter<'_>) -> core::fmt::Result { f.write_str(\"a\") } } #[derive(derive_more::Debug)] #[debug(bound(T: A1, T: B1))] #[debug(\"{_0:?}\")] pub struct S<T>(pub T); pub fn f(s: &S<OnlyA>) -> &dyn core::fmt::Debug { s }"),
    ("absent_debug_impl_second_bound_two_attrs", "absent-impl", "pub trait A1 {} pub trait B1 {} pub struct OnlyA; impl A1 for OnlyA {} impl core::fmt::Display for OnlyA { fn fmt(&self, f: &mut core::fmt::Formatter<'_>) -> core::fmt::Result { f.write_str(\"a\") } } impl core::fmt::Debug for OnlyA { fn fmt(&self, f: &mut core::fmt::Formatter<'_>) -> core::fmt::Result { f.write_str(\"a\") } } #[derive(derive_more::Debug)] #[debug(bound(T: A1))] #[debug(bound(T: B1))] #[debug(\"{_0:?}\")] pub struct S<T>(pub T); pub fn f(s: &S<OnlyA>) -> &dyn core::fmt::Debug { s }"),
    ("absent_debug_impl_second_bound_two_attrs_rev", "absent-impl", "pub trait A1 {} pub trait B1 {} pub struct OnlyA; impl A1 for OnlyA {} impl core::fmt::Display for OnlyA { fn fmt(&self, f: &mut core::fmt::Formatter<'_>) -> core::fmt::Result { f.write_str(\"a\") } } impl core::fmt::Debug for OnlyA { fn fmt(&self, f: &mut core::fmt::Formatter<'_>) -> core::fmt::Result { f.write_str(\"a\") } } #[derive(derive_more::Debug)] #[debug(bound(T: B1))] #[debug(bound(T: A1))] #[debug(\"{_0:?}\")] pub struct S<T>(pub T); pub fn f(s: &S<OnlyA>) -> &dyn core::fmt::Debug { s }"),
    ("absent_debug_impl_second_bound_around_fmt", "absent-impl", "pub trait A1 {} pub trait B1 {} pub struct OnlyA; impl A1 for OnlyA {} impl core::fmt::Display for OnlyA { fn fmt(&self, f: &mut core::fmt::Formatter<'_>) -> core::fmt::Result { f.write_str(\"a\") } } impl core::fmt::Debug for OnlyA { fn fmt(&self, f: &mut core::fmt::Formatter<'_>) -> core::fmt::Result { f.write_str(\"a\") } } #[derive(derive_more::Debug)] #[debug(bound(T: A1))] #[debug(\"{_0:?}\")] #[debug(bounds(T: B1))] pub struct S<T>(pub T); pub fn f(s: &S<OnlyA>) -> &dyn core::fmt::Debug { s }"),
    # an attribute of the enum itself where the derive only reads its variants' (open finding: silently ignored)
    ("kind_from_forward_enum", "item-kind", "#[derive(derive_more::From)] #[from(forward)] pub enum E { A(u8), B(u16) }"),
    ("kind_from_types_enum", "item-kind", "#[derive(derive_more::From)] #[from(u8)] pub enum E { A(u16), B(u32) }"),
    ("kind_from_skip_enum", "item-kind", "#[derive(derive_more::From)] #[from(skip)] pub enum E { A(u8), B(u16) }"),
]


def rejection_shapes(tier):
    out = []
    for name, cls, prog in REJECT:
        out.append(Shape("c17_rej_%s" % name, "#![allow(dead_code, unused)]\n" + prog + "\n", [], "[%s] %s" % (cls, prog),
                         exercises=["attribute parsing of the derive named in the program (impl/src/utils.rs::attr::*, ::parse_punctuated_nested_meta, "
                                    "impl/src/fmt/mod.rs, impl/src/from.rs, impl/src/into.rs, impl/src/as/mod.rs)"],
                         expect_reject=True))
    return out


def shapes(tier):
    eq = [s for s in equivalence_shapes() if tier == "thorough" or s.quick]
    return eq + rejection_shapes(tier)
