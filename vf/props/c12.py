"""C12 - TryFrom<repr> is the exact inverse of the enum-to-integer cast.

Grid: discriminant layouts x repr spellings x generic headers.  Symbolic: `n` over the *whole* repr
type.  Oracle: rustc's own discriminant assignment, read off a mirror enum in which every variant is
a unit variant with the same explicit discriminants (`Mirror::V as repr`)."""
from ..shapes import Shape, Harness

EXERCISES = ["impl/src/try_from.rs::Expansion::to_tokens", "impl/src/utils.rs::attr::ReprInt",
             "src/convert.rs::TryFromReprError"]

# (attribute text, integer type of the conversion)
REPRS = [
    ("", "isize", "norepr"),
    ("#[repr(u8)]", "u8", "u8"), ("#[repr(i8)]", "i8", "i8"), ("#[repr(u16)]", "u16", "u16"),
    ("#[repr(i16)]", "i16", "i16"), ("#[repr(u32)]", "u32", "u32"), ("#[repr(i32)]", "i32", "i32"),
    ("#[repr(u64)]", "u64", "u64"), ("#[repr(i64)]", "i64", "i64"),
    ("#[repr(usize)]", "usize", "usize"), ("#[repr(isize)]", "isize", "isize"),
    # `#[repr(u128)]` and several `#[repr(i128)]` enums make kani-compiler 0.68 panic (rvalue.rs:1009): left out, stated
    ("#[repr(C, u8)]", "u8", "C_u8"), ("#[repr(i16, C)]", "i16", "i16_C"),
    ("#[repr(C)]\n#[repr(i32)]", "i32", "C_then_i32"),
    # the integer repr in an EARLIER attribute than a non-integer one
    ("#[repr(i16)]\n#[repr(C)]", "i16", "i16_then_C"), ("#[repr(u8)]\n#[repr(align(4))]", "u8", "u8_then_align4"),
    ("#[repr(u16, align(4))]", "u16", "u16_align4"), ("#[repr(C)]", "isize", "C_only"),
]

UNIT, ETUP, EBRACE, TUP, NAMED, REF, TY = "unit", "etup", "ebrace", "tup", "named", "ref", "ty"


def bits(ty):
    return 64 if ty in ("usize", "isize") else int(ty[1:])


def signed(ty):
    return ty[0] == "i"


def layouts(ty, has_int_repr):
    """[(layout name, [(variant, kind, discriminant-or-None)])] valid for this repr."""
    b, s = bits(ty), signed(ty)
    out = []
    out.append(("implicit", [("A", UNIT, None), ("B", UNIT, None), ("C", UNIT, None)]))
    out.append(("first", [("A", UNIT, "5"), ("B", UNIT, None), ("C", UNIT, None)]))
    # field-less variants whose names differ only in letter case (seed C12-discriminant-const-names-uppercased)
    out.append(("case_twins", [("Kb", UNIT, "1"), ("KB", UNIT, None), ("Id", ETUP, None), ("ID", UNIT, "9"), ("id", EBRACE, None)] if has_int_repr
                else [("Kb", UNIT, None), ("KB", UNIT, None), ("Id", ETUP, None), ("ID", UNIT, None)]))
    # variants named by raw identifiers (fix fa7e5bd: the derive panicked on them)
    out.append(("raw_names", [("r#type", UNIT, "3"), ("r#match", UNIT, None), ("Plain", ETUP, None), ("r#fn", EBRACE, "9")] if has_int_repr
                else [("r#type", UNIT, None), ("r#match", UNIT, None), ("Plain", ETUP, None)]))
    out.append(("gaps", [("A", UNIT, "1"), ("B", UNIT, "4"), ("C", UNIT, None), ("D", UNIT, "9"),
                         ("E", UNIT, None)]))
    if has_int_repr:
        out.append(("empties", [("A", UNIT, None), ("B", ETUP, None), ("C", EBRACE, None), ("D", UNIT, "7"),
                                ("E", ETUP, None), ("F", EBRACE, "21")]))
    else:
        # without an integer repr rustc allows explicit discriminants only in unit-only enums
        out.append(("empties", [("A", UNIT, None), ("B", ETUP, None), ("C", EBRACE, None), ("D", UNIT, None),
                                ("E", ETUP, None), ("F", EBRACE, None)]))
    out.append(("fields_implicit", [("A", UNIT, None), ("B", TUP, None), ("C", UNIT, None),
                                    ("D", NAMED, None), ("E", ETUP, None)]))
    if s:
        out.append(("negative", [("A", UNIT, "-3"), ("B", UNIT, None), ("C", UNIT, "7"), ("D", UNIT, None),
                                 ("E", UNIT, "-1")]))
        out.append(("min", [("A", UNIT, "%s::MIN" % ty), ("B", UNIT, None), ("C", UNIT, "%s::MAX - 1" % ty),
                            ("D", UNIT, None)]))
    else:
        out.append(("max", [("A", UNIT, "2"), ("B", UNIT, None), ("C", UNIT, "%s::MAX - 1" % ty),
                            ("D", UNIT, None)]))
    # constant expressions whose operators bind weaker than `+`
    out.append(("constexpr_shl", [("A", UNIT, "1 << 4"), ("B", UNIT, None), ("C", UNIT, None)]))
    out.append(("constexpr_and", [("A", UNIT, "6 & 3"), ("B", UNIT, None), ("C", UNIT, "K_BASE + 1"),
                                  ("D", UNIT, None)]))
    out.append(("constexpr_xor_or", [("A", UNIT, "5 ^ 1"), ("B", UNIT, None), ("C", UNIT, "32 | 8"),
                                     ("D", UNIT, None), ("E", UNIT, None)]))
    out.append(("constexpr_cast", [("A", UNIT, "3u8 as %s" % ty), ("B", UNIT, None),
                                   ("C", UNIT, "K_BASE * 2"), ("D", UNIT, None)]))
    if b >= 16 or ty == "u8":
        # a run of more than 128 implicit discriminants (the offset no longer fits an i8 literal - seed C12-long-implicit-run-offset-off-by-one),
        # from the start of the enum and after an explicit one following a variant with fields
        out.append(("long_run", [("V%d" % i, UNIT, None) for i in range(140)]))
    if b >= 16 and has_int_repr:
        out.append(("long_run_anchored", [("First", UNIT, "-200" if s else "300"), ("WithField", TUP, None)]
                    + [("V%d" % i, UNIT, None) for i in range(135)] + [("Next", UNIT, "1000"), ("AfterNext", UNIT, None)]))
    if b >= 64:
        out.append(("wide", [("A", UNIT, None), ("B", UNIT, "1 << 40"), ("C", UNIT, None),
                             ("D", UNIT, "0x7fff_ffff_ffff_fff0"), ("E", UNIT, None)]))
    if has_int_repr:
        out.append(("fields_explicit", [("A", UNIT, None), ("B", TUP, None), ("C", UNIT, None),
                                        ("D", NAMED, "10"), ("E", UNIT, None), ("F", TUP, "1 << 5"),
                                        ("G", EBRACE, None)]))
        out.append(("explicit_on_field_then_unit", [("A", TUP, "3"), ("B", TUP, None), ("C", UNIT, None),
                                                    ("D", ETUP, "1"), ("E", UNIT, None)]))
    return out


GENERICS = [
    ("plain", "", "", []),
    ("lifetime", "<'a>", "<'a>", [("R", REF, "100")]),
    ("constparam", "<const N: usize>", "<N>", []),
    ("typeparam", "<T>", "<T>", [("Y", TY, "102")]),
    ("lt_ty_const_where", "<'a, T: 'a, const N: usize>", "<'a, T, N>", [("R", REF, "100"), ("Y", TY, "102")]),
    # bounds written in a `where` clause: a trait bound and an outlives bound (the impl must repeat the clause - seed C12-where-clause-dropped)
    ("where_clause", "<'a, T> where T: Copy + 'a", "<'a, T>", [("R", REF, "100"), ("Y", TY, "102")]),
]

# concrete instantiation of the generic arguments inside the harness
GEN_INST = {"plain": "", "lifetime": "<'static>", "constparam": "<3>", "typeparam": "<u8>",
            "lt_ty_const_where": "<'static, u8, 3>", "where_clause": "<'static, u8>"}


def variant_decl(name, kind, disc):
    body = {UNIT: "", ETUP: "()", EBRACE: "{}", TUP: "(u8)", NAMED: "{ x: u8 }", REF: "(&'a u8)",
            TY: "(T)"}[kind]
    return "    %s%s%s," % (name, body, " = " + disc if disc else "")


def fieldless(kind):
    return kind in (UNIT, ETUP, EBRACE)


def pattern(name, kind):
    return {UNIT: name, ETUP: name + "()", EBRACE: name + "{}", TUP: name + "(..)", NAMED: name + "{..}",
            REF: name + "(..)", TY: name + "(..)"}[kind]


def make_shape(rtag, repr_attr, ty, lname, variants, gname, gdecl, guse, gextra, quick):
    variants = list(variants) + list(gextra)
    name = "c12_%s_%s_%s" % (rtag, lname, gname)
    enum_src = "#[derive(derive_more::TryFrom)]\n#[try_from(repr)]\n%s\npub enum E%s {\n%s\n}" % (
        repr_attr, gdecl, "\n".join(variant_decl(*v) for v in variants))
    # mirror: all unit variants, same explicit discriminants, same repr: rustc computes the values
    mirror_repr = "#[repr(%s)]" % ty
    mirror_src = "#[derive(Clone, Copy)]\n%s\npub enum Mirror {\n%s\n}" % (
        mirror_repr, "\n".join("    %s%s," % (n, " = " + d if d else "") for n, k, d in variants))
    inst = GEN_INST[gname]
    ok_arms = []
    for n, k, d in variants:
        if fieldless(k):
            ok_arms.append("                    E::%s => Mirror::%s as %s," % (pattern(n, k), n, ty))
        else:
            ok_arms.append("                    E::%s => { assert!(false, \"try_from returned a variant with fields\"); return }"
                           % pattern(n, k))
    ne = " && ".join("n != Mirror::%s as %s" % (n, ty) for n, k, d in variants if fieldless(k))
    covers = ["                    kani::cover!(matches!(v, E::%s), \"reach Ok(%s)\");" % (pattern(n, k), n)
              for n, k, d in variants if fieldless(k)]
    if len(covers) > 12:
        # 140-variant enums: a reachability witness (and, on a failure, a playback test) per variant is not affordable - first, middle, last
        covers = [covers[0], covers[len(covers) // 2], covers[-1]]
    n_fieldless = len(covers)
    src = """// C12 shape: repr=%(ty)s layout=%(lname)s generics=%(gname)s
#![allow(dead_code, unused, clippy::all)]
pub const K_BASE: %(ty)s = 40;

%(enum_src)s

%(mirror_src)s

#[cfg(kani)]
mod proofs {
    use super::*;
    #[kani::proof]
    fn inverse_of_cast() {
        let n: %(ty)s = kani::any();
        match <E%(inst)s as core::convert::TryFrom<%(ty)s>>::try_from(n) {
            Ok(v) => {
%(covers)s
                let back: %(ty)s = match v {
%(ok_arms)s
                };
                assert!(back == n, "Ok(v) but `v as repr` differs from the input");
            }
            Err(e) => {
                kani::cover!(true, "reach Err");
                assert!(e.input == n, "Err does not carry the input");
                assert!(%(ne)s, "Err for the discriminant of a field-less variant");
            }
        }
    }
}
""" % dict(ty=ty, lname=lname, gname=gname, enum_src=enum_src, mirror_src=mirror_src, inst=inst,
           covers="\n".join(covers), ok_arms="\n".join(ok_arms), ne=ne)
    h = Harness(name="inverse_of_cast",
                symbolic="n: %s over its entire range (2^%d values)" % (ty, bits(ty)),
                covers=n_fieldless + 1,
                asserts="Ok(v) => v field-less and Mirror(v) as repr == n; Err(e) => e.input == n and n is no field-less discriminant")
    return Shape(name=name, source=src, harnesses=[h], descr=enum_src.replace("\n", " "),
                 exercises=EXERCISES, quick=quick, tags=[ty, lname, gname])


def shapes(tier):
    out = []
    idx = 0
    for ri, (repr_attr, ty, rtag) in enumerate(REPRS):
        has_int = repr_attr != "" and repr_attr.replace(" ", "") != "#[repr(C)]"
        for li, (lname, variants) in enumerate(layouts(ty, has_int)):
            for gi, (gname, gdecl, guse, gextra) in enumerate(GENERICS):
                # generic headers only on a rotating subset, they are independent of the layout
                if gname != "plain" and ((li + ri) % 6 != gi or lname.startswith("long_run")):
                    continue   # (the generic extras carry the discriminants 100 / 102, inside a long run)
                # 140-variant enums are the expensive programs of this grid: one per width / signedness is enough
                if lname.startswith("long_run") and rtag not in ("norepr", "u8", "i16", "u32", "i64", "C_u8" if lname == "long_run" else "i16_C"):
                    continue
                # fielded generic extras carry explicit discriminants (100, 102): integer repr needed
                if gextra and not has_int:
                    if any(d for _, _, d in variants):
                        continue
                    gextra = [(n, k, None) for n, k, d in gextra]
                # `#[repr(C, int)]` is only accepted by rustc on enums that have fields
                if has_int and "C" in repr_attr:
                    if all(fieldless(k) for _, k, _ in list(variants) + list(gextra)):
                        continue
                # `#[repr(C)]`-only enums: rustc picks a C int; keep values small
                if not has_int and repr_attr and lname in ("max", "min", "wide"):
                    continue
                idx += 1
                quick = (gname == "plain" and (ri in (0, 1, 8, 13, 14, 15) or lname.startswith("constexpr")
                                               and ri % 4 == 2)) or (gname != "plain" and ri in (2, 8))
                out.append(make_shape(rtag, repr_attr, ty, lname, variants, gname, gdecl, guse, gextra, quick))
    # the whole grid costs under a minute (351 programs): both tiers run all of it.  (A hand-picked quick subset had silently lost
    # `usize` and three other reprs when the repr list grew - seed C12-repr-usize-not-recognised passed it.)
    for s in out:
        s.quick = True
    return out


DESCRIPTION = {
    "grid": "18 repr spellings (none, 10 integer types, `C,u8`, `i16,C`, two separate attributes in either order incl. `align`, `u16,align(4)`, `C` alone) x "
            "up to 15 discriminant layouts (implicit, explicit first, gaps, negative, MIN/MAX edges, empty tuple/brace "
            "variants, fielded variants with/without explicit discriminants, constant expressions with <<, &, ^, |, "
            "`as`, named constants, 2^40-range values) x 5 generic headers (none, lifetime, const, type, all three)",
    "symbolic": "the integer n over the entire repr type",
    "oracle": "rustc's discriminant assignment on a unit-only mirror enum (`Mirror::V as repr`)",
    "not_covered": ["enums outside the grid", "`#[repr(u128)]`/`#[repr(i128)]` (kani-compiler 0.68 panics in codegen on such enums)", "`#[try_from(repr(..))]` is rejected by the macro"],
}
