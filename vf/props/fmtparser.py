"""Engine L on the format-literal parser: shared by C03 (interpretation equals std's) and the literal half of C18
(totality).  One exploration of `probe` per literal length; every path is decided by the solver."""
import json
import os
import re
import sys
import time

from .. import common
from ..common import log

# 2 bytes XID_Start, 2 bytes XID_Continue only, 3 bytes, 4 bytes, and two multi-byte *whitespace* characters (2 and 3 bytes)
MULTIBYTE = ["é", "́", "€", "\U0001F980", "\u00a0", "\u3000"]
BOUNDS = {"quick": int(os.environ.get("VERIF_L_QUICK_N", "5")), "thorough": int(os.environ.get("VERIF_L_THOROUGH_N", "6"))}
# second pass: longer literals over the reduced alphabet of the characters the grammar gives a meaning to
DEEP_ALPHABET = "{}:.*$01 a?x"
DEEP_BOUNDS = {"quick": int(os.environ.get("VERIF_L_QUICK_DEEP", "6")), "thorough": int(os.environ.get("VERIF_L_THOROUGH_DEEP", "8"))}

# third pass: still longer literals, constrained to a *structured* language - a DFA over (text | placeholder)* with text = ' ',
# placeholder = `{` [0|1|a] [`:` [#] [1|1$|a$] [.1|.1$|.a$|.*] [?|x|x?]] `}` - i.e. the well-formed literals that exercise argument
# resolution (explicit / implicit / named arguments, `$` references, `.*`), whose interplay needs two or three placeholders.
# The bytes stay symbolic; the DFA is a z3 constraint over them (state variables per position).
STRUCT_BOUNDS = {"quick": (7, int(os.environ.get("VERIF_L_QUICK_STRUCT", "9"))), "thorough": (9, int(os.environ.get("VERIF_L_THOROUGH_STRUCT", "11")))}


def struct_dfa():
    T = {}

    def add(q, c, r):
        assert (q, c) not in T
        T[(q, c)] = r
    add(0, ' ', 0); add(0, '{', 1)
    for c in '01a':
        add(1, c, 2)
    add(1, ':', 3); add(1, '}', 0)
    add(2, ':', 3); add(2, '}', 0)
    stages = {3: [('#', 7)], 7: [('1', 8), ('a', 9)], 10: [('.', 11)], 14: [('?', 16), ('x', 15)]}
    order = [3, 7, 10, 14]
    for i, q in enumerate(order):
        for q2 in order[i:]:
            for c, r in stages[q2]:
                if (q, c) not in T:
                    add(q, c, r)
        add(q, '}', 0)
    add(8, '$', 10)
    for q2 in (10, 14):
        for c, r in stages[q2]:
            add(8, c, r)
    add(8, '}', 0)
    add(9, '$', 10)
    add(11, '1', 12); add(11, 'a', 13); add(11, '*', 14)
    add(12, '$', 14)
    for c, r in stages[14]:
        add(12, c, r)
    add(12, '}', 0)
    add(13, '$', 14)
    add(15, '?', 16); add(15, '}', 0)
    add(16, '}', 0)
    return T


def placeholder_dfa():
    """ONE placeholder with every part of a format spec optional, in std's order:
    `{` [0|a] [' '] [`:` [[*]<] [+] [#] [0] [1|a$] [.1|.*|.a$] [?|x|x?|q] [' ']] `}`  (q: an unknown type letter)"""
    T = {}
    chain = ["F", "SG", "H", "Z", "W", "P", "T", "E"]
    own = {"F": [("<", "SG"), ("*", "FA")], "SG": [("+", "H")], "H": [("#", "Z")], "Z": [("0", "W")], "W": [("1", "P"), ("a", "WD")],
           "P": [(".", "PD")], "T": [("?", "E"), ("x", "TX"), ("q", "E")], "E": [(" ", "E2"), ("}", "END")]}
    for i, q in enumerate(chain):
        for q2 in chain[i:]:
            for c, r in own[q2]:
                T.setdefault((q, c), r)
    for c, r in own["T"] + own["E"]:
        T.setdefault(("TX", c), r) if c != "x" and c != "q" else None
    T[("TX", "?")] = "E"
    T.update({("S", "{"): "A", ("A", "0"): "A1", ("A", "a"): "A1", ("A", " "): "W1", ("A", ":"): "F", ("A", "}"): "END",
              ("A1", " "): "W1", ("A1", ":"): "F", ("A1", "}"): "END", ("W1", ":"): "F", ("W1", "}"): "END",
              ("FA", "<"): "SG", ("WD", "$"): "P", ("PD", "1"): "T", ("PD", "*"): "T", ("PD", "a"): "PDD", ("PDD", "$"): "T", ("E2", "}"): "END"})
    for c, r in own["T"] + own["E"]:
        T.setdefault(("P", c), r)
    names = sorted({q for q, _ in T} | set(T.values()))
    idx = {q: i for i, q in enumerate(names)}
    return {(idx[q], c): idx[r] for (q, c), r in T.items()}, idx["S"], idx["END"]


EDIT_ALPHABET = "{}:.*$01a?x<+#q -^_e"


def struct_constraint(z3, bs, which="structured"):
    if which == "placeholder1":
        # one-edit (substitution) neighbours of the placeholder language: a shadow string s follows the DFA, the literal equals it
        # everywhere except at one symbolic position, where it holds any character of EDIT_ALPHABET
        T, q0, qf = placeholder_dfa()
        n = len(bs)
        sh = [z3.BitVec("s%d" % i, 8) for i in range(n)]
        j = z3.BitVec("editpos", 8)
        ss = [z3.BitVec("q%d" % i, 8) for i in range(n + 1)]
        cs = [ss[0] == q0, ss[n] == qf, z3.ULT(j, n)]
        for i in range(n):
            cs.append(z3.Or(*[z3.And(ss[i] == q, sh[i] == ord(c), ss[i + 1] == r) for (q, c), r in T.items()]))
            cs.append(z3.If(j == i, z3.And(bs[i] != sh[i], z3.Or(*[bs[i] == ord(c) for c in EDIT_ALPHABET])), bs[i] == sh[i]))
        return z3.And(*cs)
    if which == "placeholder":
        T, q0, qf = placeholder_dfa()
    else:
        T, q0, qf = struct_dfa(), 0, 0
    n = len(bs)
    ss = [z3.BitVec("q%d" % i, 8) for i in range(n + 1)]
    cs = [ss[0] == q0, ss[n] == qf]
    for i in range(n):
        cs.append(z3.Or(*[z3.And(ss[i] == q, bs[i] == ord(c), ss[i + 1] == r) for (q, c), r in T.items()]))
    return z3.And(*cs)


# fourth pass: digit runs.  `D` stands for a symbolic decimal digit, everything else is fixed: every index, width and precision of
# 1..6 digits (the u16 boundary 65535/65536 std enforces) and of 20 / 21 digits (around usize::MAX), decided for all digit values at once
DIGIT_TEMPLATES = ["{%s}", "{:%s}", "{:.%s}", "{:%s$}", "{:.%s$}", "{%s:%s$.%s$}"]


# totality "in bounded time": long repetitive literals on which a backtracking parser needs super-linear work (concrete bytes; the
# per-path step budget and a native 10 s limit decide)
STRESS_LITERALS = ["{" * 48, "}" * 48, "{:" * 24, "{a" * 24, "{0:" * 16, "{:.*" * 12, "{:1$.2$" * 7, "{{" * 24 + "{", "{:>" * 16, "{:#?" * 12,
                   "{é" * 16, "{:.a$" * 10, "{ " * 24, "{:x?" * 12 + "}" * 12, "{}" * 24, "{a:b$.c$x?} " * 4]


def digit_templates(tier, prop="C03"):
    out = list(STRESS_LITERALS) if prop == "C18" else []
    for k in (1, 2, 3, 4, 5, 6) + ((20, 21) if tier == "thorough" else ()):
        for t in DIGIT_TEMPLATES[:5]:
            out.append(t % ("D" * k))
    out.append(DIGIT_TEMPLATES[5] % ("D" * 5, "D" * 5, "D" * 5))
    # both sides of 2^64 and of 2^32 with only the last four digits symbolic (cheap enough for the quick tier; all 20 / 21 digits
    # symbolic cost a minute per template and stay in the thorough tier)
    out += ["{:1844674407370955DDDD}", "{1844674407370955DDDD}", "{:.1844674407370955DDDD$}", "{:99999999999999999DDDD}", "{:429496DDDD}", "{0:429496DDDD$}"]
    if tier == "thorough":
        out += ["{%s}{}" % ("D" * 5), "{}{:%s$}" % ("D" * 5), "{:%s.%s}" % ("D" * 5, "D" * 5), "{:0%s}" % ("D" * 5), "{:#%s$}" % ("D" * 6)]
    return out


FAIL_TEXT = {
    1: "std accepts the literal, derive_more's parser returns None",
    2: "different number of placeholders",
    3: "different argument (kind, index or identifier)",
    4: "different formatting type / trait",
    5: "different presence of fill / alignment / sign / # / 0 / width / precision",
    6: "implicit argument resolved to a different position",
    8: "std rejects the literal but derive_more takes it as one bare placeholder (delegated without reaching format_args!)",
    10: "format() consumed a different extent than the literal's first placeholder (it decides delegation of the whole attribute)",
}


def explore(tier, prop):
    """Build, explore all lengths 0..N, validate against native execution.  Returns a dict with everything the two
    properties need."""
    import z3
    from ..llsym import build, driver, native
    from ..llsym import engine as E
    import multiprocessing

    t0 = time.time()
    scratch = common.scratch_dir(prop)
    res = {"inconclusive": [], "records": [], "lengths": {}, "build": None}
    try:
        b = build.build_fmt_wrapper(scratch)
    except RuntimeError as e:
        res["inconclusive"].append("wrapper crate does not build: " + str(e)[-1500:])
        return res
    res["build"] = b
    mod = E.Module(b["ll"])
    N = BOUNDS[tier]
    workers = common.NCPU
    total_stats = {}
    all_recs = []
    passes = [(n, "full") for n in range(0, N + 1)] + [(n, "deep") for n in range(N + 1, DEEP_BOUNDS[tier] + 1)]
    if prop == "C03":
        passes += [(n, "structured") for n in range(max(STRUCT_BOUNDS[tier][0], DEEP_BOUNDS[tier] + 1), STRUCT_BOUNDS[tier][1] + 1)]
        if tier == "thorough":
            # one placeholder with every optional part of a format spec: all lengths of the placeholder language
            passes += [(n, "placeholder") for n in range(2, 19)]
            # ... and every literal one substituted character away from one of those, up to 8 bytes
            passes += [(n, "placeholder1") for n in range(2, int(os.environ.get("VERIF_L_EDIT_N", "8")) + 1)]
    passes = [(n, w, None) for n, w in passes] + [(len(t.encode()), "digits", t) for t in digit_templates(tier, prop)]
    res["passes"] = [(n, w) for n, w, _ in passes]
    res["digit_templates"] = digit_templates(tier, prop)
    for pi, (n, which, tmpl) in enumerate(passes):
        outdir = os.path.join(scratch, "paths-%d-%d" % (pi, n))
        os.makedirs(outdir)
        slots = multiprocessing.Semaphore(workers - 1)
        ex = driver.ParallelExec(mod, outdir, slots, max_steps=40000 * (n + 2))
        bs = [z3.BitVec("b%d" % i, 8) for i in range(n)]
        digest_base = [None]

        def setup(ex, st, n=n, bs=bs, which=which, tmpl=tmpl):
            buf = st.alloc(max(n, 1), "input")
            for i in range(n):
                buf.data[i] = bs[i]
            dg = st.alloc(64, "digest")
            digest_base[0] = dg.base
            fr = st.frames[0]
            names = [p[1] for p in fr.fn.params]
            fr.regs[names[0]] = buf.base
            fr.regs[names[1]] = n
            fr.regs[names[2]] = dg.base
            if n and which == "full":
                st.pc.append(driver.utf8_alphabet_constraint(bs, n, lambda b: z3.ULT(b, 0x80), MULTIBYTE))
            elif n and which == "deep":
                st.pc.append(z3.And(*[z3.Or(*[b == ord(c) for c in DEEP_ALPHABET]) for b in bs]))
            elif n and which in ("structured", "placeholder", "placeholder1"):
                st.pc.append(struct_constraint(z3, bs, which))
            elif n:
                tb = tmpl.encode()
                st.pc.append(z3.And(*[z3.And(z3.UGE(b, 0x30), z3.ULE(b, 0x39)) if c == 0x44 else b == c for b, c in zip(bs, tb)]))

        def describe(kind, detail, st, m, bs=bs):
            inp = [m.eval(b, model_completion=True).as_long() for b in bs] if m is not None else None
            rec = {"kind": kind, "n": len(bs), "input": inp}
            if kind == "ret":
                rv = detail
                if E.is_sym(rv):
                    rv = m.eval(rv, model_completion=True).as_long()
                rec["code"] = rv
                try:
                    o = st.find(digest_base[0], 0)
                    dg = []
                    for i in range(64):
                        v = o.data.get(i)
                        if v is None:
                            dg.append(None)
                        elif E.is_sym(v):
                            dg.append(m.eval(v, model_completion=True).as_long())
                        else:
                            dg.append(v)
                    rec["digest"] = dg
                except E.Event:
                    rec["digest"] = None
            else:
                rec["detail"] = str(detail)[:300]
                rec["where"] = [f.fn.name[:80] for f in st.frames[-3:]]
            return rec
        ex.describe = describe
        t = time.time()
        ok = ex.run_parallel("@probe", setup)
        recs, stats, solver_s = driver.collect(outdir)
        dt = time.time() - t
        if not ok:
            res["inconclusive"].append("a worker process of the length-%d exploration died" % n)
        lkey = ("digits:" + tmpl) if tmpl is not None else (n if which in ("full", "deep", "structured") else "%s:%d" % (which, n))
        res["lengths"][lkey] = {"alphabet": which, "paths": stats.get("paths", 0), "forks": stats.get("forks", 0), "queries": stats.get("queries", 0),
                             "instrs": stats.get("instrs", 0), "solver_s": round(solver_s, 2), "wall_s": round(dt, 2),
                             "ends": {k[4:]: v for k, v in stats.items() if k.startswith("end_")}}
        log("[%s] len=%d (%s alphabet) paths=%d queries=%d solver=%.1fs wall=%.1fs ends=%s" % (
            prop, n, which if tmpl is None else tmpl, stats.get("paths", 0), stats.get("queries", 0), solver_s, dt, res["lengths"][lkey]["ends"]))
        all_recs.extend(recs)
        for k, v in stats.items():
            total_stats[k] = total_stats.get(k, 0) + v
    res["records"] = all_recs
    res["stats"] = total_stats
    res["explore_s"] = time.time() - t0
    # ---- translator validation + replay: run every returned path natively and compare code and digest
    t1 = time.time()
    rets = [r for r in all_recs if r["kind"] == "ret"]
    cap = 6000 if tier == "quick" else 40000
    fails = [r for r in rets if r["code"] not in (0, 9)]
    sample = fails + [r for r in rets if r["code"] in (0, 9)][:cap]
    nat = native.run_native(b["so"], [bytes(r["input"]) for r in sample])
    mism = 0
    for r, nr in zip(sample, nat):
        r["native"] = nr
        if nr is None or "code" not in nr:
            mism += 1
            r["native_agrees"] = False
            continue
        same = nr["code"] == r["code"] and all(a is None or a == b for a, b in zip(r["digest"] or [], nr["digest"]))
        r["native_agrees"] = same
        if not same:
            mism += 1
    res["validated"] = len(sample)
    res["validation_mismatches"] = mism
    if mism:
        bad = [r for r in sample if not r.get("native_agrees")][:3]
        res["inconclusive"].append("llsym and the native build disagree on %d of %d replayed paths, e.g. %s" % (
            mism, len(sample), [(bytes(r["input"]).decode("utf8", "replace"), r["code"], r.get("native")) for r in bad]))
    # ---- panics etc.: replay natively
    # (a path over the step budget is a non-termination candidate: it becomes a `hang` only if the native run does not return either)
    bad_kinds = [r for r in all_recs if r.get("input") is not None and
                 (r["kind"] in ("panic", "memerr", "unreachable") or (r["kind"] == "inconclusive" and "step budget" in str(r.get("detail"))))]
    nat = native.run_native(b["so"], [bytes(r["input"]) for r in bad_kinds[:200]], timeout_per_input=10.0, each=True)
    for r, nr in zip(bad_kinds, nat):
        r["native"] = nr
        if r["kind"] == "inconclusive" and nr and nr.get("timeout"):
            r["kind"] = "hang"
    res["replay_s"] = time.time() - t1
    for r in all_recs:
        if r["kind"] in ("unsupported", "inconclusive"):
            res["inconclusive"].append("path ended %s: %s (input %r)" % (r["kind"], r.get("detail"), r.get("input")))
            break
    return res


def lit(r):
    return bytes(r["input"]).decode("utf8", "replace")


def coverage_common(res, tier):
    L = res["lengths"]
    return {
        "states": sum(v["paths"] for v in L.values()),
        "transitions": sum(v["queries"] for v in L.values()),
        "traces_validated_against_impl": res.get("validated", 0),
        "engine": "llsym (vf/llsym): path-forking symbolic execution of the optimised LLVM IR of the wrapper crate, z3 %s" % _z3v(),
        "functions_encoded": ["impl/src/fmt/parsing.rs (whole file, included by #[path]): format_string, format and every combinator",
                              "impl/src/fmt/mod.rs::Placeholder::parse_fmt_string, Parameter (cut verbatim by item name)",
                              "vf/llsym/rust/oracle.rs::reference (restated rustc_parse_format, pinned against the real one by vf/llsym/rust/validator)"],
        "bounds": {"literal_length_bytes": "0..=%d over the full alphabet, %d..=%d over the reduced alphabet" % (BOUNDS[tier], BOUNDS[tier] + 1, DEEP_BOUNDS[tier]),
                   "alphabet": "every ASCII byte (0x00-0x7f) and the characters é (2-byte, XID_Start), U+0301 (2-byte, XID_Continue only), € (3-byte), U+1F980 (4-byte), U+00A0 and U+3000 (2- and 3-byte whitespace); well-formed UTF-8",
                   "reduced_alphabet": DEEP_ALPHABET,
                   "structured_pass": ("lengths %s: literals of the regular language (' ' | `{` [0|1|a] [`:` [#] [1|1$|a$] [.1|.1$|.a$|.*] [?|x|x?]] `}`)*, "
                                       "imposed on the symbolic bytes as a DFA constraint" % sorted(n for n, w in res.get("passes", []) if w == "structured"))
                                      if any(w == "structured" for _, w in res.get("passes", [])) else "not part of this check",
                   "digit_run_pass": "templates %s where every D is a symbolic decimal digit (all values decided at once)" % res.get("digit_templates"),
                   "outside": "longer literals; other non-ASCII characters; longer literals with characters outside the reduced alphabet / the structured language / the digit templates"},
        "per_length": L,
        "solver_time_s": round(sum(v["solver_s"] for v in L.values()), 1),
        "instructions_executed": sum(v["instrs"] for v in L.values()),
        "native_validation": {"paths_replayed": res.get("validated", 0), "mismatches": res.get("validation_mismatches", 0)},
        "explore_s": round(res.get("explore_s", 0), 1), "build_s": round(res["build"]["build_s"], 1) if res.get("build") else None,
    }


def _z3v():
    try:
        import z3
        return z3.get_version_string()
    except Exception:
        return "?"


def oracle_pin(tier):
    """status of the pin of oracle.rs against the real rustc_parse_format: re-run in thorough runs, read from ./setup's result otherwise"""
    import subprocess
    state = os.path.join(common.VERIF, ".state", "oracle_pin.json")
    if tier == "thorough" or not os.path.exists(state):
        subprocess.run([os.path.join(common.VERIF, "tools", "pin_oracle.sh"), "5", "11" if tier == "thorough" else "9"], capture_output=True, text=True)
    try:
        return json.load(open(state))
    except Exception:
        return {"status": "unknown"}
