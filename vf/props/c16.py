"""C16 - format arguments are split exactly where Rust's grammar splits them (engine L on the argument scanner).

The working-tree impl/src/parsing.rs and FmtArgument are executed symbolically, from their LLVM IR, on every valid
token-tree sequence within the bound; a path on which Rust's grammar (the pinned oracle) accepts the argument list and the
scanner returns anything else - failure, other boundaries, another alias / single-identifier classification, tokens not
handed on in order - is a counterexample.  It is replayed through the scanner built against the real syn before it is reported."""
import json
import os
import subprocess
import time

from .. import common
from ..common import log
from . import scanner

PROP = "C16"


def tts_of(r):
    return [tuple(r["input"][4 * i:4 * i + 4]) for i in range(r["n"])]


def classify(code, flags):
    """<code>/<class>: the known-finding key.  The class names the grammar feature (reported by the oracle for the accepted parse)
    that the scanner is known not to understand; only count / boundary disagreements (codes 1-3) can belong to such a class."""
    if code in (1, 2, 3) and flags:
        return "+".join(scanner.FLAG_TEXT[b] for b in sorted(scanner.FLAG_TEXT) if flags & b)
    return "other"


def main(a):
    if a.replay:
        return replay(a.replay)
    tier = a.tier
    t0 = time.time()
    res = scanner.explore(tier, PROP)
    kf = common.KnownFindings()
    recs = res["records"]
    fails = [r for r in recs if r["kind"] == "ret" and r["code"] != 0]
    aborts = [r for r in recs if r["kind"] in ("panic", "memerr", "unreachable")]
    classes = {}
    for r in fails:
        code, flags = r["code"] & 0xff, r["code"] >> 8
        classes.setdefault("%d/%s" % (code, classify(code, flags)), []).append(r)
    violations, known_lines, inconclusive = [], [], list(res["inconclusive"])
    replay_dir = os.path.join(common.REPLAY_DIR, PROP)
    os.makedirs(replay_dir, exist_ok=True)
    for key, rs in sorted(classes.items()):
        shortest = min(rs, key=lambda r: (r["n"], r["input"]))
        text = kf.match(PROP, key)
        if text is not None:
            known_lines.append("KNOWN-FINDING: property=%s key=%s %s (%d paths, e.g. `%s`)" % (PROP, key, text, len(rs), scanner.render(tts_of(shortest))))
            continue
        # replay against the real code: the scanner compiled against the real syn, compared with syn's full expression parser
        confirmed = None
        for r in sorted(rs, key=lambda r: (r["n"], r["input"]))[:5]:
            src = scanner.render(tts_of(r))
            p = subprocess.run([res["validator_bin"], "replay", scanner.describe_tts(tts_of(r))], capture_output=True, text=True)
            if p.returncode in (1, 3):
                confirmed = (r, src, p.stdout)
                break
        if confirmed is None:
            inconclusive.append("disagreement class %s did not reproduce against real syn (%d paths, e.g. `%s`)" % (key, len(rs), scanner.render(tts_of(shortest))))
            continue
        r, src, out = confirmed
        path = os.path.join(replay_dir, "code%s.json" % key.replace("/", "_").replace("+", "_"))
        json.dump({"property": PROP, "class": key, "meaning": scanner.FAIL_TEXT.get(r["code"] & 0xff), "arguments": src, "token_trees": tts_of(r),
                   "llsym_code": r["code"], "real_syn_replay": out.split("\n"), "paths_in_class": len(rs),
                   "other_inputs": [scanner.render(tts_of(x)) for x in rs[:12]],
                   "user_level": "#[derive(derive_more::Display)] #[display(\"...\", %s)] struct S { a: .. }" % src,
                   "replay": "./check C16 --replay %s" % path}, open(path, "w"), indent=1)
        violations.append((key, path, "%s; e.g. `%s` (%d paths)" % (scanner.FAIL_TEXT.get(r["code"] & 0xff), src, len(rs))))
    if aborts:
        # totality is C18's obligation; here an abort only means the comparison could not be made
        inconclusive.append("%d scanner paths abort (see ./check C18), e.g. `%s`: %s" % (len(aborts), scanner.render(tts_of(aborts[0])), aborts[0].get("detail")))
    wall = time.time() - t0
    cov = scanner.coverage(res, tier, PROP) if res.get("build") else {"states": 0, "transitions": 0, "traces_validated_against_impl": 0}
    rets = [r for r in recs if r["kind"] == "ret"]
    accepted = [r for r in rets if r.get("digest") and r["digest"][1] != 255]
    cov.update({
        "samples": [{"arguments": scanner.render(tts_of(r)), "verdict": "agree", "scanner_args": r["digest"][0], "grammar_args": r["digest"][1]} for r in accepted[-4:]] +
                   [{"arguments": scanner.render(tts_of(r)), "verdict": "DISAGREE code %d: %s" % (r["code"] & 0xff, scanner.FAIL_TEXT.get(r["code"] & 0xff))} for r in fails[:4]],
        "paths_total": len(rets), "paths_grammar_accepts": len(accepted), "paths_disagreeing": len(fails),
        "disagreement_classes": {k: {"paths": len(v), "shortest": scanner.render(tts_of(min(v, key=lambda r: (r["n"], r["input"]))))} for k, v in classes.items()},
        "known_findings_reported": known_lines,
        "inconclusive": inconclusive[:10],
        "explanation": "states = symbolic paths (each stands for every token-tree sequence satisfying its path condition; the verdict of a path is the "
                       "probe's return value, decided by the solver's feasibility answers along it); transitions = solver queries; traces_validated = "
                       "paths whose predicted return code and digest were reproduced by the native build of the same wrapper",
        "exhaustive": False,
    })
    common.write_evidence(PROP, tier, "model_checking", cov, [
        "Rust's grammar is represented by vf/llsym/rust/scan/scan_oracle.rs, a restatement of syn 2's `full` expression / type / path / pattern "
        "parsers over the alphabet; it is pinned on every run against the real syn on every valid token-tree sequence up to the validator bound "
        "(coverage.validator) - beyond that bound its agreement with syn is an assumption, and syn standing for rustc's grammar is another",
        "environment stubs: syn::buffer::Cursor / ParseBuffer / Ident / token::{Eq, Comma}, proc_macro2::{TokenStream, Punct, Spacing}, quote::ToTokens "
        "are replaced by index-based stubs (vf/llsym/rust/scan/shim_*); the same validator run compares the stub build of the working-tree scanner with "
        "its build against the real crates on every sequence up to the validator bound",
        "FmtArgument (alias detection) is cut out of impl/src/fmt/mod.rs by item name and compiled verbatim; arguments are driven like "
        "Punctuated::parse_terminated",
        "groups are opaque token trees with fixed content: the scanner never looks inside a group",
        "llsym executes the IR faithfully: a sample of the explored paths (all disagreeing ones) is re-run natively and must agree",
    ], wall, len(violations))
    for l in known_lines:
        print(l)
    for key, path, what in violations:
        print("VIOLATION property=%s replay=%s" % (PROP, path))
        log("  %s: %s" % (key, what))
    if violations:
        return common.EXIT_VIOLATION
    if inconclusive:
        for i in inconclusive[:8]:
            log("[%s] INCONCLUSIVE: %s" % (PROP, i[:600]))
        return common.EXIT_INCONCLUSIVE
    log("[%s] held within the bound: %d paths, %d solver queries, wall %.0fs" % (PROP, cov["states"], cov["transitions"], wall))
    return common.EXIT_OK


def replay(path):
    from ..llsym import build
    j = json.load(open(path))
    scratch = common.scratch_dir(PROP + "-replay")
    b = build.build_scan_wrapper(scratch)
    v = build.build_scan_validator(scratch, b["dir"])
    p = subprocess.run([v, "replay", scanner.describe_tts(j["token_trees"])], capture_output=True, text=True)
    print(p.stdout)
    if p.returncode in (1, 3):
        print("VIOLATION property=%s replay=%s" % (PROP, path))
        return common.EXIT_VIOLATION
    return common.EXIT_OK if p.returncode == 0 else common.EXIT_INCONCLUSIVE
