"""C18 - derive expansion is total (engine L, for the format-literal parser; see DESIGN.md for the argument scanner).

Every path of `format_string` / `format` / `Placeholder::parse_fmt_string` over every literal within the bound must
return: a path that reaches a panic entry point, an out-of-object memory access or `unreachable`, or that exceeds the
step budget (bounded time), with a satisfiable path condition is a counterexample, replayed natively before it is
reported."""
import json
import os
import time

from .. import common
from ..common import log
from . import fmtparser, scanner

PROP = "C18"


def main(a):
    if a.replay:
        return replay(a.replay)
    tier = a.tier
    t0 = time.time()
    res = fmtparser.explore(tier, PROP)
    kf = common.KnownFindings()
    recs = res["records"]
    bad = [r for r in recs if r["kind"] in ("panic", "memerr", "unreachable", "hang")]
    violations, known_lines, inconclusive = [], [], list(res["inconclusive"])
    replay_dir = os.path.join(common.REPLAY_DIR, PROP)
    os.makedirs(replay_dir, exist_ok=True)
    groups = {}
    for r in bad:
        key = "%s/%s" % (r["kind"], (r.get("detail") or "")[:60].replace(" ", "_"))
        groups.setdefault(key, []).append(r)
    for key, rs in sorted(groups.items()):
        confirmed = [r for r in rs if r.get("native") and (r["native"].get("abort") or r["native"].get("timeout"))]
        text = kf.match(PROP, key)
        if text is not None:
            known_lines.append("KNOWN-FINDING: property=%s key=%s %s" % (PROP, key, text))
            continue
        if not confirmed:
            inconclusive.append("%s reached by llsym on %d paths but the native build returns normally, e.g. %r" % (
                key, len(rs), fmtparser.lit(rs[0])))
            continue
        s = min(confirmed, key=lambda r: (len(r["input"]), r["input"]))
        path = os.path.join(replay_dir, "%s.json" % key.replace("/", "_")[:60])
        json.dump({"property": PROP, "class": key, "literal": fmtparser.lit(s), "bytes": s["input"], "where": s.get("where"),
                   "native": s["native"], "paths_in_class": len(rs), "replay": "./check C18 --replay %s" % path}, open(path, "w"), indent=1)
        violations.append((key, path, "the literal parser %s on %r (%d paths)" % ("does not return" if s["kind"] == "hang" else "aborts", fmtparser.lit(s), len(rs))))
    # ---- the argument scanner (impl/src/parsing.rs + FmtArgument): it must return on every token-tree sequence
    sres = scanner.explore(tier, PROP)
    inconclusive.extend(sres["inconclusive"])
    srecs = sres["records"]
    sbad = [r for r in srecs if r["kind"] in ("panic", "memerr", "unreachable", "hang")]
    sgroups = {}
    for r in sbad:
        sgroups.setdefault("scanner-%s/%s" % (r["kind"], (r.get("detail") or "")[:50].replace(" ", "_")), []).append(r)
    tts_of = lambda r: [tuple(r["input"][4 * i:4 * i + 4]) for i in range(r["n"])]
    for key, rs in sorted(sgroups.items()):
        confirmed = [r for r in rs if r.get("native") and (r["native"].get("abort") or r["native"].get("timeout"))]
        text = kf.match(PROP, key)
        if text is not None:
            known_lines.append("KNOWN-FINDING: property=%s key=%s %s" % (PROP, key, text))
            continue
        if not confirmed:
            inconclusive.append("%s reached by llsym on %d paths but the native build returns normally, e.g. `%s`" % (key, len(rs), scanner.render(tts_of(rs[0]))))
            continue
        x = min(confirmed, key=lambda r: (r["n"], r["input"]))
        path = os.path.join(replay_dir, "%s.json" % key.replace("/", "_")[:60])
        json.dump({"property": PROP, "component": "scanner", "class": key, "arguments": scanner.render(tts_of(x)), "token_trees": tts_of(x), "where": x.get("where"),
                   "native": x["native"], "paths_in_class": len(rs), "replay": "./check C18 --replay %s" % path}, open(path, "w"), indent=1)
        violations.append((key, path, "the argument scanner %s on `%s` (%d paths)" % ("does not terminate" if x["kind"] == "hang" else "aborts", scanner.render(tts_of(x)), len(rs))))
    wall = time.time() - t0
    scov = scanner.coverage(sres, tier, PROP) if sres.get("build") else None
    cov = fmtparser.coverage_common(res, tier) if res.get("build") else {"states": 0, "transitions": 0, "traces_validated_against_impl": 0}
    rets = [r for r in recs if r["kind"] == "ret"]
    cov.update({
        "samples": [{"literal": fmtparser.lit(r), "verdict": "returns", "steps_bound": "40000*(len+2) IR instructions"} for r in rets[-4:]] +
                   [{"literal": fmtparser.lit(r), "verdict": r["kind"], "detail": r.get("detail")} for r in bad[:4]],
        "paths_returning": len(rets), "paths_aborting": len(bad),
        "panic_entry_points_watched": "core::panicking::*, slice/str index failures, unwrap/expect failures, arithmetic overflow (the wrapper is "
                                      "compiled with overflow-checks=on), alloc errors, llvm.trap; out-of-object loads/stores; `unreachable`",
        "known_findings_reported": known_lines, "inconclusive": inconclusive[:10],
        "components": {"format literal parser (impl/src/fmt/parsing.rs + Placeholder::parse_fmt_string)": "explored",
                       "argument scanner (impl/src/parsing.rs + FmtArgument)": "explored (coverage.scanner)",
                       "expanders' own index arithmetic, attribute parsers": "out of reach (syn values), not claimed"},
        "explanation": "states = symbolic paths (each ends in `ret` or in an abort, decided by satisfiability of its path condition); "
                       "transitions = solver queries; traces_validated = paths re-run natively",
        "exhaustive": False,
    })
    if scov:
        cov["literal_parser"] = {"states": cov["states"], "transitions": cov["transitions"], "traces_validated_against_impl": cov["traces_validated_against_impl"]}
        cov["scanner"] = scov
        cov["scanner"]["paths_returning"] = len([r for r in srecs if r["kind"] == "ret"])
        cov["scanner"]["paths_aborting_or_hanging"] = len(sbad)
        for k in ("states", "transitions", "traces_validated_against_impl"):
            cov[k] += scov[k]
    common.write_evidence(PROP, tier, "model_checking", cov, [
        "claims the two components the property singles out - the format-literal parser and the argument scanner; C18's other components are listed "
        "under coverage.components as out of reach",
        "the scanner runs against index-based environment stubs for syn / proc_macro2 / quote (vf/llsym/rust/scan/shim_*), validated on every run against "
        "the real crates on every token-tree sequence up to the validator bound (coverage.scanner.validator)",
        "llsym executes the IR faithfully (every returned path is re-run natively and must agree)",
        "bounded time is checked as a per-path budget of 40000*(len+2) IR instructions",
    ], wall, len(violations))
    for l in known_lines:
        print(l)
    for key, path, what in violations:
        print("VIOLATION property=%s replay=%s" % (PROP, path))
        log("  %s: %s" % (key, what))
    if violations:
        return common.EXIT_VIOLATION
    if inconclusive:
        for i in inconclusive[:8]:
            log("[%s] INCONCLUSIVE: %s" % (PROP, i[:600]))
        return common.EXIT_INCONCLUSIVE
    log("[%s] held within the bound: %d paths all return, %d solver queries, wall %.0fs" % (PROP, cov["states"], cov["transitions"], wall))
    return common.EXIT_OK


def replay(path):
    from ..llsym import build, native
    j = json.load(open(path))
    scratch = common.scratch_dir(PROP + "-replay")
    if j.get("component") == "scanner":
        import subprocess
        b = build.build_scan_wrapper(scratch)
        v = build.build_scan_validator(scratch, b["dir"])
        try:
            p = subprocess.run([v, "replay", scanner.describe_tts(j["token_trees"])], capture_output=True, text=True, timeout=60)
            print(p.stdout + p.stderr[-400:])
            bad = p.returncode not in (0, 1, 2)      # 3 = panicked, negative = killed by a signal (1 = a C16 disagreement, not C18's business)
        except subprocess.TimeoutExpired:
            print("the scanner built against the real syn did not return within 60 s on `%s`" % j["arguments"])
            bad = True
        if bad:
            print("VIOLATION property=%s replay=%s" % (PROP, path))
            return common.EXIT_VIOLATION
        return common.EXIT_OK
    b = build.build_fmt_wrapper(scratch)
    out = native.run_native(b["so"], [bytes(j["bytes"])])[0]
    print("literal %r -> native %s" % (j["literal"], out))
    if out.get("abort") or out.get("timeout"):
        print("VIOLATION property=%s replay=%s" % (PROP, path))
        return common.EXIT_VIOLATION
    return common.EXIT_OK
