"""C18 - derive expansion is total (engine L, for the format-literal parser; see DESIGN.md for the argument scanner).

Every path of `format_string` / `format` / `Placeholder::parse_fmt_string` over every literal within the bound must
return: a path that reaches a panic entry point, an out-of-object memory access or `unreachable`, or that exceeds the
step budget (bounded time), with a satisfiable path condition is a counterexample, replayed natively before it is
reported."""
import json
import os
import time

from .. import common
from ..common import log
from . import fmtparser

PROP = "C18"


def main(a):
    if a.replay:
        return replay(a.replay)
    tier = a.tier
    t0 = time.time()
    res = fmtparser.explore(tier, PROP)
    kf = common.KnownFindings()
    recs = res["records"]
    bad = [r for r in recs if r["kind"] in ("panic", "memerr", "unreachable")]
    violations, known_lines, inconclusive = [], [], list(res["inconclusive"])
    replay_dir = os.path.join(common.REPLAY_DIR, PROP)
    os.makedirs(replay_dir, exist_ok=True)
    groups = {}
    for r in bad:
        key = "%s/%s" % (r["kind"], (r.get("detail") or "")[:60].replace(" ", "_"))
        groups.setdefault(key, []).append(r)
    for key, rs in sorted(groups.items()):
        confirmed = [r for r in rs if r.get("native") and (r["native"].get("abort") or r["native"].get("timeout"))]
        text = kf.match(PROP, key)
        if text is not None:
            known_lines.append("KNOWN-FINDING: property=%s key=%s %s" % (PROP, key, text))
            continue
        if not confirmed:
            inconclusive.append("%s reached by llsym on %d paths but the native build returns normally, e.g. %r" % (
                key, len(rs), fmtparser.lit(rs[0])))
            continue
        s = min(confirmed, key=lambda r: (len(r["input"]), r["input"]))
        path = os.path.join(replay_dir, "%s.json" % key.replace("/", "_")[:60])
        json.dump({"property": PROP, "class": key, "literal": fmtparser.lit(s), "bytes": s["input"], "where": s.get("where"),
                   "native": s["native"], "paths_in_class": len(rs), "replay": "./check C18 --replay %s" % path}, open(path, "w"), indent=1)
        violations.append((key, path, "the literal parser aborts on %r (%d paths)" % (fmtparser.lit(s), len(rs))))
    wall = time.time() - t0
    cov = fmtparser.coverage_common(res, tier) if res.get("build") else {"states": 0, "transitions": 0, "traces_validated_against_impl": 0}
    rets = [r for r in recs if r["kind"] == "ret"]
    cov.update({
        "samples": [{"literal": fmtparser.lit(r), "verdict": "returns", "steps_bound": "40000*(len+2) IR instructions"} for r in rets[-4:]] +
                   [{"literal": fmtparser.lit(r), "verdict": r["kind"], "detail": r.get("detail")} for r in bad[:4]],
        "paths_returning": len(rets), "paths_aborting": len(bad),
        "panic_entry_points_watched": "core::panicking::*, slice/str index failures, unwrap/expect failures, arithmetic overflow (the wrapper is "
                                      "compiled with overflow-checks=on), alloc errors, llvm.trap; out-of-object loads/stores; `unreachable`",
        "known_findings_reported": known_lines, "inconclusive": inconclusive[:10],
        "components": {"format literal parser (impl/src/fmt/parsing.rs + Placeholder::parse_fmt_string)": "explored",
                       "argument scanner (impl/src/parsing.rs)": "not covered by this check (see DESIGN.md, C16)",
                       "expanders' own index arithmetic, attribute parsers": "out of reach (syn values), not claimed"},
        "explanation": "states = symbolic paths (each ends in `ret` or in an abort, decided by satisfiability of its path condition); "
                       "transitions = solver queries; traces_validated = paths re-run natively",
        "exhaustive": False,
    })
    common.write_evidence(PROP, tier, "model_checking", cov, [
        "claims the format-literal parser only: C18's other components are listed under coverage.components",
        "llsym executes the IR faithfully (every returned path is re-run natively and must agree)",
        "bounded time is checked as a per-path budget of 40000*(len+2) IR instructions",
    ], wall, len(violations))
    for l in known_lines:
        print(l)
    for key, path, what in violations:
        print("VIOLATION property=%s replay=%s" % (PROP, path))
        log("  %s: %s" % (key, what))
    if violations:
        return common.EXIT_VIOLATION
    if inconclusive:
        for i in inconclusive[:8]:
            log("[%s] INCONCLUSIVE: %s" % (PROP, i[:600]))
        return common.EXIT_INCONCLUSIVE
    log("[%s] held within the bound: %d paths all return, %d solver queries, wall %.0fs" % (PROP, cov["states"], cov["transitions"], wall))
    return common.EXIT_OK


def replay(path):
    from ..llsym import build, native
    j = json.load(open(path))
    scratch = common.scratch_dir(PROP + "-replay")
    b = build.build_fmt_wrapper(scratch)
    out = native.run_native(b["so"], [bytes(j["bytes"])])[0]
    print("literal %r -> native %s" % (j["literal"], out))
    if out.get("abort") or out.get("timeout"):
        print("VIOLATION property=%s replay=%s" % (PROP, path))
        return common.EXIT_VIOLATION
    return common.EXIT_OK
