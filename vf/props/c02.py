"""C02 - derived formatting prints exactly what `format!` prints for the same literal.

Oracle: `write!(sink, <same literal>, <same args>)` emitted next to the type, with the bindings the property states
(`_0`, `x`, ... = references to the fields inside argument expressions; the field itself when named in the literal)."""
import re

from ..shapes import Shape, Harness
from . import fmtsupport
from .fmtsupport import TRAITS

CRATE_ATTRS = fmtsupport.CRATE_ATTRS
SUPPORT = fmtsupport.SUPPORT

HEAD = ("#![allow(dead_code, unused, clippy::all, non_camel_case_types)]\nuse crate::support::*;\nuse crate::run_fmt;\n"
        "use core::fmt::{self, FormattingOptions, Write as _};\n\n")

P = "Probe::new(kani::any())"


def module(decl, harness_src):
    return HEAD + decl + "\n\n#[cfg(kani)]\nmod proofs {\n    use super::*;\n" + harness_src + "}\n"


class Tpl:
    """a literal template on a struct body"""

    def __init__(self, name, fields, lit, args="", named=False, oracle_args=None, assume="", unwind=10, quick=False, extra_bind="",
                 field_vals=None):
        self.name, self.fields, self.lit, self.args, self.named = name, fields, lit, args, named
        self.oracle_args = args if oracle_args is None else oracle_args
        self.assume, self.unwind, self.quick, self.extra_bind = assume, unwind, quick, extra_bind
        self.field_vals = field_vals

    def names(self):
        if self.named:
            return [f[0] for f in self.fields]
        return ["_%d" % i for i in range(len(self.fields))]

    def tys(self):
        return [f[1] for f in self.fields] if self.named else list(self.fields)

    def struct_body(self):
        if self.named:
            return "{ %s }" % ", ".join("pub %s: %s" % (n, t) for n, t in self.fields)
        return "(%s);" % ", ".join("pub " + t for t in self.fields)

    def variant_body(self):
        if self.named:
            return "{ %s }" % ", ".join("%s: %s" % (n, t) for n, t in self.fields)
        return "(%s)" % ", ".join(self.fields)

    def vals(self):
        if self.field_vals:
            return self.field_vals
        return [P if t == "Probe" else "kani::any()" for t in self.tys()]

    def ctor(self, prefix):
        if self.named:
            return "%s { %s }" % (prefix, ", ".join("%s: %s" % (n, v) for (n, _), v in zip(self.fields, self.vals())))
        return "%s(%s)" % (prefix, ", ".join(self.vals()))

    def accessor(self, i):
        return self.fields[i][0] if self.named else str(i)

    def attr(self, attr):
        return '#[%s("%s"%s)]' % (attr, self.lit, (", " + self.args) if self.args else "")

    def lit_named_fields(self):
        """fields named directly inside the literal as `{name...}` or as `name$` width/precision"""
        found = set()
        for m in re.finditer(r"\{([A-Za-z_][A-Za-z0-9_]*)", self.lit.replace("{{", "")):
            found.add(m.group(1))
        for m in re.finditer(r"([A-Za-z_][A-Za-z0-9_]*)\$", self.lit):
            found.add(m.group(1))
        return found

    def oracle(self, val, sink):
        """`let <name> = &val.<field>;` bindings + write!; fields named in the literal are passed as themselves"""
        binds = "".join("            let %s = &%s.%s;\n" % (n, val, self.accessor(i)) for i, n in enumerate(self.names()))
        aliases = {m.group(1) for m in re.finditer(r"([A-Za-z_][A-Za-z0-9_]*)\s*=", self.oracle_args)}
        named_in_lit = [n for n in self.names() if n.replace("r#", "") in self.lit_named_fields() and n.replace("r#", "") not in aliases]
        extra = ", ".join("%s = *%s" % (n.replace("r#", ""), n) for n in named_in_lit)
        args = ", ".join(x for x in (self.oracle_args, extra) if x)
        return "        {\n            let this = &%s;\n%s%s            write!(%s, \"%s\"%s).unwrap();\n        }\n" % (
            val, binds, self.extra_bind, sink, self.lit, (", " + args) if args else "")


PP = ["Probe", "Probe"]
NXY = [("x", "Probe"), ("y", "Probe")]

TEMPLATES = [
    Tpl("mixed_named_positional", PP, "<{_0}|{_1:?}|{0:x}>", "_1", quick=True),
    Tpl("named_in_literal", NXY, "{x}-{y:o}", named=True, quick=True),
    Tpl("implicit_sequence", PP, "{} {} {}", "_0, _1, _0"),
    Tpl("implicit_after_explicit", PP, "{1} {} {0} {}", "_0, _1", quick=True),
    Tpl("alias_and_positional", PP, "{_0} {} {n}", "_1, n = _0"),
    Tpl("expression_args", PP, "{a}/{b:?}", "a = _0.twin(), b = self.1.pick()", oracle_args="a = _0.twin(), b = this.1.pick()", quick=True),
    Tpl("self_expression", NXY, "[{}]", "self.y.pick()", named=True, oracle_args="this.y.pick()"),
    Tpl("escapes_and_unicode", ["Probe"], "{{é}}{_0}€{{", quick=True),
    Tpl("letters_1", ["Probe"], "{_0:b}{_0:o}{_0:x}{_0:X}"),
    Tpl("letters_2", ["Probe"], "{_0:e}{_0:E}{_0:?}{_0:#?}{_0:>+08.3}", quick=True),
    Tpl("flags_in_literal", PP, "{_0:*^7.2}|{_1:#06x}|{0:<+}", "_1"),
    Tpl("width_from_arg", ["Probe", "usize"], "{:1$}|{_0:>w$}", "_0, *_1, w = *_1 + 1", assume="kani::assume(s.1 <= 6);", quick=True),
    Tpl("precision_star", ["Probe", "usize"], "{:.*}|{_0:.p$}", "*_1, _0, p = *_1", assume="kani::assume(s.1 <= 6);"),
    Tpl("width_precision_named_fields", [("v", "Probe"), ("w", "usize"), ("p", "usize")], "{v:w$.p$}", named=True,
        assume="kani::assume(s.w <= 6 && s.p <= 6);", quick=True),
    Tpl("pointer_field_in_literal", ["Probe"], "{_0:p}", quick=True),
    # unwind 24: if the derive formats a *reference* to the field under Pointer (std prints the address: up to 16 hex digits) the harness must
    # still come back with a verdict instead of an unwinding failure
    Tpl("pointer_deref_in_args", PP, "{:p}|{_1:p}", "*_0", unwind=24),
    Tpl("pointer_after_other_placeholder", PP, "{_1} at {_0:p}", unwind=24, quick=True),
    Tpl("pointer_between_others", PP, "{_0:?}{_1:p}{_0:p}{}", "_1", unwind=24),
    Tpl("raw_identifier_field", [("r#type", "Probe"), ("r#fn", "Probe")], "{type}/{fn:?}", named=True, quick=True),
    # raw-identifier fields under Pointer next to other text: the field itself is formatted, not a reference to it (seed
    # C02-raw-field-pointer-arg-not-appended)
    Tpl("raw_identifier_pointer_field", [("r#ref", "Probe"), ("r#box", "Probe")], "{ref:p} in {box}|{box:p}", named=True, unwind=24, quick=True),
    Tpl("arithmetic_on_u8_field", [("n", "u8"), ("q", "Probe")], "{}:{q}", "*n % 10 + 1", named=True, unwind=12),
    Tpl("text_only", PP, "no placeholders, just text é"),
    Tpl("trailing_whitespace", ["Probe"], "{_0}\\n", quick=True),
    Tpl("trailing_whitespace_arg", PP, "{:?} \\t", "_1"),
    Tpl("leading_whitespace", ["Probe"], " \\n{_0}"),
    Tpl("minus_sign_only", ["Probe"], "{_0:-}", quick=True),
]

POINTER_REF = Tpl("pointer_reference_in_args", ["Probe"], "{:p}", "_0", unwind=24)


def harness_for(tpl, trait, val_ty, ctor, fn="same_as_format"):
    return """    #[kani::proof]
    #[kani::unwind(%(unw)d)]
    fn %(fn)s() {
        let s = %(ctor)s;
        %(assume)s
        let (got, tg) = run_fmt!(%(T)s, &s, FormattingOptions::new());
        trace_reset();
        let mut want = Sink::new();
%(oracle)s        let tw = trace_take();
        assert!(!got.overflow && !want.overflow, "HARNESS: sink too small");
        assert!(got.same(&want), "derived output differs from write!(literal, args)");
        assert!(tg == tw, "fields were formatted in a different order, under a different trait or with different options than write!(literal, args) does");
        kani::cover!(got.len >= 1, "reach non-empty output");
    }
""" % dict(unw=tpl.unwind, fn=fn, ctor=ctor, assume=tpl.assume, T=trait, oracle=tpl.oracle("s", "want"))


def rename_all_shapes():
    """unit struct / unit variants under Display with each documented casing: concrete executions (no symbolic input)"""
    words = {"FooBar": ["foo", "bar"], "Baz": ["baz"], "ABCDef": ["abc", "def"], "r#Type": ["type"]}

    def conv(ws, case):
        if case == "lowercase":
            return "".join(ws)
        if case == "UPPERCASE":
            return "".join(ws).upper()
        if case == "PascalCase":
            return "".join(w.capitalize() for w in ws)
        if case == "camelCase":
            return ws[0] + "".join(w.capitalize() for w in ws[1:])
        if case == "snake_case":
            return "_".join(ws)
        if case == "SCREAMING_SNAKE_CASE":
            return "_".join(ws).upper()
        if case == "kebab-case":
            return "-".join(ws)
        if case == "SCREAMING-KEBAB-CASE":
            return "-".join(ws).upper()
    out = []
    cases = ["lowercase", "UPPERCASE", "PascalCase", "camelCase", "snake_case", "SCREAMING_SNAKE_CASE", "kebab-case", "SCREAMING-KEBAB-CASE"]
    decls, checks = [], []
    decls.append("#[derive(derive_more::Display)]\npub struct PlainUnit;\n#[derive(derive_more::Display)]\npub enum Plain { FooBar, Baz, ABCDef, r#Type, #[display(\"custom\")] Own }")
    checks.append(("PlainUnit", "PlainUnit"))
    for v in words:
        checks.append(("Plain::" + v, v.replace("r#", "")))
    checks.append(("Plain::Own", "custom"))
    for i, c in enumerate(cases):
        decls.append("#[derive(derive_more::Display)]\n#[display(rename_all = \"%s\")]\npub enum R%d { FooBar, Baz, ABCDef, r#Type, #[display(rename_all = \"%s\")] OverRidden }\n"
                     "#[derive(derive_more::Display)]\n#[display(rename_all = \"%s\")]\npub struct FooBar%s;" % (c, i, cases[(i + 3) % 8], c, "ABCDEFGH"[i]))
        for v, ws in words.items():
            checks.append(("R%d::%s" % (i, v), conv(ws, c)))
        checks.append(("R%d::OverRidden" % i, conv(["over", "ridden"], cases[(i + 3) % 8])))
        checks.append(("FooBar%s" % "ABCDEFGH"[i], conv(["foo", "bar", "abcdefgh"[i]], c)))
    # rename_all written before / after another, independent #[display(..)] attribute of the same item (seed C02-rename-all-overwritten-by-later-attr)
    B = "#[display(bound(T: core::fmt::Display))]"
    decls.append("#[derive(derive_more::Display)]\n#[display(rename_all = \"kebab-case\")]\n%s\npub enum RenFirst<T> { UnitVariant, #[display(\"{_0}\")] W(T) }\n"
                 "#[derive(derive_more::Display)]\n%s\n#[display(rename_all = \"kebab-case\")]\npub enum RenLast<T> { UnitVariant, #[display(\"{_0}\")] W(T) }\n"
                 "#[derive(derive_more::Display)]\npub enum RenVariant<T> { #[display(rename_all = \"SCREAMING_SNAKE_CASE\")] %s UnitVariant, %s #[display(rename_all = \"camelCase\")] OtherUnit, #[display(\"{_0}\")] W(T) }\n"
                 "#[derive(derive_more::Display)]\n#[display(rename_all = \"snake_case\")]\n#[display(bound(u8: Copy))]\npub struct UnitRenFirst;\n"
                 "#[derive(derive_more::Display)]\n#[display(bound(u8: Copy))]\n#[display(rename_all = \"snake_case\")]\npub struct UnitRenLast;" % (B, B, B, B))
    checks += [("RenFirst::<u8>::UnitVariant", "unit-variant"), ("RenLast::<u8>::UnitVariant", "unit-variant"),
               ("RenVariant::<u8>::UnitVariant", "UNIT_VARIANT"), ("RenVariant::<u8>::OtherUnit", "otherUnit"),
               ("UnitRenFirst", "unit_ren_first"), ("UnitRenLast", "unit_ren_last")]
    src = ""
    hs = []
    for k in range(0, len(checks), 12):
        chunk = checks[k:k + 12]
        body = ""
        for expr, text in chunk:
            body += "        { let mut sink = Sink::new(); write!(sink, \"{}\", %s).unwrap(); assert!(sink.len == %d && &sink.buf[..%d] == \"%s\".as_bytes(), \"%s does not print as %s\"); }\n" % (
                expr, len(text.encode()), len(text.encode()), text, expr.replace('"', ''), text)
        fn = "unit_names_%d" % (k // 12)
        src += "    #[kani::proof]\n    #[kani::unwind(24)]\n    fn %s() {\n%s        kani::cover!(true, \"reach end\");\n    }\n" % (fn, body)
        hs.append(Harness(fn, "none: concrete executions of the expansion inside Kani (symbolic_inputs: 0)", covers=1, unwind=24,
                          asserts="unit structs / unit variants print their name, converted by rename_all (8 casings, variant override)"))
    decl = "\n".join(decls)
    return [Shape("c02_unit_names_rename_all", module(decl, src), hs, decl.replace("\n", " "),
                  exercises=["impl/src/fmt/display.rs::RenameAllAttribute::convert_case", "impl/src/fmt/display.rs::Expansion::generate_body (unit)"],
                  quick=True, crate_attrs=CRATE_ATTRS)]


def shapes(tier):
    out = []
    H = lambda t: Harness("same_as_format", "probe ids symbolic; usize/u8 fields symbolic (assumed <= 6 where they are a width/precision)",  # noqa
                          covers=1, unwind=t.unwind,
                          asserts="sink bytes equal those of write!(literal, args) and the probes saw the same (trait, options) in the same order")
    for trait, attr, sfx, _ in TRAITS:
        q_trait = trait in ("Display", "UpperHex", "Debug")
        for t in TEMPLATES:
            decl = "#[derive(derive_more::%s)]\n%s\npub struct S%s" % (trait, t.attr(attr), t.struct_body())
            out.append(Shape("c02_%s_struct_%s" % (attr, t.name), module(decl, harness_for(t, trait, "S", t.ctor("S"))), [H(t)],
                             decl.replace("\n", " "),
                             exercises=["impl/src/fmt/display.rs::expand_struct" if trait != "Debug" else "impl/src/fmt/debug.rs::expand_struct",
                                        "impl/src/fmt/mod.rs::FmtAttribute (to_tokens, additional_deref_args)"],
                             quick=(q_trait and t.quick) or (trait == "Display"), crate_attrs=CRATE_ATTRS))
        # enum placement: four templates as variants of one enum, variant symbolic
        enum_expr = Tpl("expression_args_variant", PP, "{a}/{b:?}", "a = _0.twin(), b = _1.pick()")
        vts = [TEMPLATES[0], TEMPLATES[1], enum_expr, TEMPLATES[13], TEMPLATES[14]]
        vnames = ["A", "B", "C", "D", "E"]
        decl = "#[derive(derive_more::%s)]\npub enum S {\n%s\n}" % (trait, "\n".join(
            "    %s\n    %s%s," % (t.attr(attr), vn, t.variant_body()) for t, vn in zip(vts, vnames)))
        arms = []
        for t, vn in zip(vts, vnames):
            # bind the variant's fields under their names, then the same oracle as for structs (self := the value)
            pat = "S::%s%s" % (vn, ("{ %s }" % ", ".join(n for n in t.names())) if t.named else "(%s)" % ", ".join(t.names()))
            aliases = {m.group(1) for m in re.finditer(r"([A-Za-z_][A-Za-z0-9_]*)\s*=", t.oracle_args)}
            named_in_lit = [n for n in t.names() if n in t.lit_named_fields() and n not in aliases]
            extra = ", ".join("%s = *%s" % (n, n) for n in named_in_lit)
            oargs = t.oracle_args
            args = ", ".join(x for x in (oargs, extra) if x)
            assume = t.assume.replace("s.w", "*w").replace("s.p", "*p").replace("s.1", "*_1")
            arms.append("            %s => { %s write!(want, \"%s\"%s).unwrap(); }" % (pat, assume, t.lit, (", " + args) if args else ""))
        ctor_arms = ["%d => %s" % (i, t.ctor("S::" + vn)) for i, (t, vn) in enumerate(zip(vts, vnames))]
        ctor_arms[-1] = "_ => " + ctor_arms[-1].split("=> ", 1)[1]
        hsrc = """    #[kani::proof]
    #[kani::unwind(10)]
    fn variants_same_as_format() {
        let s = match kani::any::<u8>() %% %(n)d { %(ctors)s };
        trace_reset();
        let mut want = Sink::new();
        match &s {
%(arms)s
        }
        let tw = trace_take();
        let (got, tg) = run_fmt!(%(T)s, &s, FormattingOptions::new());
        assert!(!got.overflow && !want.overflow, "HARNESS: sink too small");
        assert!(got.same(&want), "derived output differs from write!(literal, args) for this variant");
        assert!(tg == tw, "fields were formatted differently than write!(literal, args) does");
        kani::cover!(matches!(s, S::D { .. }), "reach D");
        kani::cover!(matches!(s, S::C(..)), "reach C");
    }
""" % dict(n=len(vts), ctors=", ".join(ctor_arms), arms="\n".join(arms), T=trait)
        out.append(Shape("c02_%s_enum_variants" % attr, module(decl, hsrc),
                         [Harness("variants_same_as_format", "the variant, probe ids and usize fields (<= 6) symbolic", covers=2, unwind=10,
                                  asserts="per variant: same bytes and same probe trace as write!(variant's literal, args)")],
                         decl.replace("\n", " "),
                         exercises=["impl/src/fmt/display.rs::expand_enum" if trait != "Debug" else "impl/src/fmt/debug.rs::expand_enum"],
                         quick=q_trait, crate_attrs=CRATE_ATTRS))
    # `{:p}` on a *reference* to the field (argument expression): prints the field's address
    t = POINTER_REF
    decl = "#[derive(derive_more::Display)]\n%s\npub struct S%s" % (t.attr("display"), t.struct_body())
    out.append(Shape("c02_display_struct_pointer_reference_in_args", module(decl, harness_for(t, "Display", "S", t.ctor("S"))),
                     [Harness("same_as_format", "probe id symbolic", covers=1, unwind=t.unwind,
                              asserts="`{:p}` with the argument `_0` prints the address of the field (a reference to it), as format! does")],
                     decl.replace("\n", " "), exercises=["impl/src/fmt/display.rs::expand_struct", "impl/src/fmt/mod.rs::transparent_call_on_fields"],
                     quick=True, crate_attrs=CRATE_ATTRS))
    out += rename_all_shapes()
    # 'without an attribute a variant prints ...' inside an enum whose other variants have attributes: Debug against std's builders (shape shared with C06)
    from . import c06
    c06.TIER[0] = tier
    out += c06.variant_format_pairs("c02_debug")
    if tier == "quick":
        out = [s for s in out if s.quick]
    return out


DESCRIPTION = {
    "grid": "9 derives x 19 literal templates on structs (named-in-literal, positional, implicit sequences incl. after explicit indices, "
            "aliases, expression and `self` arguments, escapes and non-ASCII text, every trait letter, flags inside the literal, width / "
            "precision from arguments and from named fields incl. `.*`, `{:p}` on a field named in the literal and on a dereferenced "
            "argument, raw-identifier fields, arithmetic on a u8 field, text only) + one 5-variant enum per derive; `{:p}` on a reference "
            "argument; unit names under Display with 8 rename_all casings (concrete)",
    "symbolic": "probe ids, usize fields used as width/precision (assumed <= 6), a u8 field, the variant",
    "oracle": "write!(sink, <same literal>, <same args>) with `_i`/`name` bound to references to the fields and fields named in the "
              "literal passed as themselves; for unit names the generator's restatement of the 8 documented casings",
    "not_covered": ["literals outside the template list", "field types whose output depends on more than (value, options)",
                    "unit-name cases have no symbolic input: concrete executions inside Kani"],
}
ASSUMPTIONS = ["a Formatter is (options, sink): equal probe traces and equal sink bytes mean byte-for-byte equal output for every field "
               "type whose output is a function of (value, options)"]
HARNESS_TIMEOUT = {"quick": 600, "thorough": 1200}
