"""C11 - variant accessors agree with the value's variant and never lose data.

The full (value x accessor) table: the value (variant and payloads) is symbolic, every accessor of every
non-ignored variant is called on it."""
from ..shapes import Shape, Harness

SUPPORT = """#[derive(Clone, Copy, PartialEq, Eq, Debug)]
pub struct V(pub u32);
#[derive(Clone, Copy, PartialEq, Eq, Debug)]
pub struct W(pub u32);
"""

HEAD = "#![allow(dead_code, unused, clippy::all)]\nuse crate::support::*;\nuse core::ptr;\n\n"


def module(decls, helpers, harness_src):
    return HEAD + decls + "\n\n#[cfg(kani)]\nmod proofs {\n    use super::*;\n" + helpers + harness_src + "}\n"


class Var:
    def __init__(self, name, snake, kind, tys, attrs="", ignored=False, field_ignored=(), field_bare=()):
        self.name, self.snake, self.kind, self.tys = name, snake, kind, tys
        self.attrs, self.ignored, self.field_ignored = attrs, ignored, set(field_ignored)
        self.field_bare = set(field_bare)    # fields carrying the bare marker `#[<attr>]` (accepted, and without effect)

    NAMES = ["a", "b", "c"]

    def decl(self, attr_name=None):
        fields = []
        for i, t in enumerate(self.tys):
            pre = "#[%s(ignore)] " % attr_name if (i in self.field_ignored and attr_name) else ""
            if i in self.field_bare and attr_name:
                pre = "#[%s] " % attr_name
            fields.append(pre + (("%s: " % self.NAMES[i]) if self.kind == "named" else "") + t)
        a = ("    " + self.attrs + "\n") if self.attrs else ""
        if self.kind == "tuple":
            return a + "    %s(%s)," % (self.name, ", ".join(fields))
        if self.kind == "named":
            return a + "    %s { %s }," % (self.name, ", ".join(fields))
        return a + "    %s," % self.name

    def pat(self, pre, wild=False):
        if self.kind == "unit":
            return "E::" + self.name
        if wild:
            return "E::%s%s" % (self.name, "(..)" if self.kind == "tuple" else "{..}")
        if self.kind == "tuple":
            return "E::%s(%s)" % (self.name, ", ".join("%s%d" % (pre, i) for i in range(len(self.tys))))
        return "E::%s { %s }" % (self.name, ", ".join("%s: %s%d" % (self.NAMES[i], pre, i) for i in range(len(self.tys))))

    def any(self):
        def anyv(t):
            return "%s(kani::any())" % t
        if self.kind == "unit":
            return "E::" + self.name
        if self.kind == "tuple":
            return "E::%s(%s)" % (self.name, ", ".join(anyv(t) for t in self.tys))
        return "E::%s { %s }" % (self.name, ", ".join("%s: %s" % (self.NAMES[i], anyv(t)) for i, t in enumerate(self.tys)))


def any_e(variants, generics=""):
    arms = []
    for i, v in enumerate(variants):
        arms.append("            %s => %s," % (str(i) if i < len(variants) - 1 else "_", v.any()))
    return "    fn any_e() -> E%s {\n        match kani::any::<u8>() %% %d {\n%s\n        }\n    }\n" % (
        generics, len(variants), "\n".join(arms))


def tuple_ty(tys, ref=""):
    if len(tys) == 1:
        return ref + tys[0]
    return "(" + ", ".join(ref + t for t in tys) + ")"


# ---------------------------------------------------------------------------------------------------
# IsVariant / Unwrap / TryUnwrap on one enum

UNWRAP_VARIANTS = [
    Var("Unit", "unit", "unit", []),
    Var("One", "one", "tuple", ["V"]),
    Var("Two", "two", "tuple", ["V", "W"]),
    Var("Pair", "pair", "tuple", ["V", "V"]),
    Var("HTTPError", "http_error", "tuple", ["W"]),
    Var("Triple", "triple", "tuple", ["V", "W", "V"]),
    Var("AlsoUnit", "also_unit", "unit", []),
]


def destructure(v, binding, n):
    """bind the tuple returned by an accessor to p0..pn"""
    if n == 0:
        return "let () = %s;" % binding
    if n == 1:
        return "let p0 = %s;" % binding
    return "let (%s) = %s;" % (", ".join("p%d" % i for i in range(n)), binding)


def unwrap_shape(name, variants, with_ignored=None, quick=True):
    derives = "#[derive(Clone, Copy, PartialEq, Debug, derive_more::IsVariant, derive_more::Unwrap, derive_more::TryUnwrap)]\n" \
              "#[unwrap(owned, ref, ref_mut)]\n#[try_unwrap(owned, ref, ref_mut)]\n"
    decl = derives + "pub enum E {\n%s\n}" % "\n".join(v.decl() for v in variants)
    live = [v for v in variants if not v.ignored]
    hs, src = [], ""
    # is_x for all x
    lines = ["        assert!(v.is_%s() == matches!(v, %s), \"is_%s disagrees with the variant\");" % (x.snake, x.pat("_", True), x.snake)
             for x in live]
    covs = ["        kani::cover!(v.is_%s(), \"reach %s\");" % (x.snake, x.name) for x in live]
    src += "    #[kani::proof]\n    fn is_variant_table() {\n        let v = any_e();\n%s\n%s\n    }\n" % ("\n".join(lines), "\n".join(covs))
    hs.append(Harness("is_variant_table", "the value: variant and all payloads symbolic", covers=len(live),
                      asserts="is_x() == (v is X) for every non-ignored variant X"))
    for x in live:
        n = len(x.tys)
        eqs = " && ".join("p%d == l%d" % (i, i) for i in range(n)) or "true"
        ptrs = " && ".join("ptr::eq(p%d, l%d)" % (i, i) for i in range(n)) or "true"
        # (a) success side: owned, ref, mut for unwrap and try_unwrap
        body = "        let v = any_e();\n        kani::assume(matches!(v, %s));\n" % x.pat("_", True)
        body += "        let mut m = v;\n"
        body += "        if let %s = v {\n" % x.pat("l")
        body += "            { %s assert!(%s, \"unwrap_%s: payload not in declaration order\"); }\n" % (destructure(x, "v.unwrap_%s()" % x.snake, n), eqs, x.snake)
        body += "            { %s assert!(%s, \"try_unwrap_%s: payload not in declaration order\"); }\n" % (
            destructure(x, "v.try_unwrap_%s().ok().unwrap()" % x.snake, n), eqs, x.snake)
        body += "        }\n"
        body += "        if let %s = &v {\n" % x.pat("l")
        body += "            { %s assert!(%s, \"unwrap_%s_ref: not the very same objects\"); }\n" % (destructure(x, "v.unwrap_%s_ref()" % x.snake, n), ptrs, x.snake)
        body += "            { %s assert!(%s, \"try_unwrap_%s_ref: not the very same objects\"); }\n" % (
            destructure(x, "v.try_unwrap_%s_ref().ok().unwrap()" % x.snake, n), ptrs, x.snake)
        body += "        }\n"
        if n:
            # mutable forms: addresses equal the fields' addresses, and a write through them lands in the field
            addr = "[%s]" % ", ".join("l%d as *const _ as usize" % i for i in range(n))
            body += "        let want: [usize; %d] = if let %s = &m { %s } else { unreachable!() };\n" % (n, x.pat("l"), addr)
            for form in ("m.unwrap_%s_mut()" % x.snake, "m.try_unwrap_%s_mut().ok().unwrap()" % x.snake):
                body += "        {\n            %s\n            let got: [usize; %d] = [%s];\n            assert!(got == want, \"%s: not the very same objects\");\n        }\n" % (
                    destructure(x, form, n), n, ", ".join("p%d as *mut _ as usize" % i for i in range(n)), form.split("(")[0])
            body += "        let nv: u32 = kani::any();\n        {\n            %s\n            p%d.0 = nv;\n        }\n" % (
                destructure(x, "m.unwrap_%s_mut()" % x.snake, n), n - 1)
            body += "        if let %s = &m { assert!(l%d.0 == nv, \"write through unwrap_%s_mut is not visible in the field\"); }\n" % (x.pat("l"), n - 1, x.snake)
        else:
            body += "        let () = m.unwrap_%s_mut();\n        let () = m.try_unwrap_%s_mut().ok().unwrap();\n" % (x.snake, x.snake)
        body += "        kani::cover!(true, \"reach end\");\n"
        fn = "unwrap_%s_when_it_is" % x.snake
        src += "    #[kani::proof]\n    fn %s() {\n%s    }\n" % (fn, body)
        hs.append(Harness(fn, "payloads of %s symbolic" % x.name, covers=1,
                          asserts="owned/ref/mut forms of unwrap_%s and try_unwrap_%s return the fields in order; reference forms are the very same objects; writes through mut land in the field" % (x.snake, x.snake)))
        # (b) failure side of try_unwrap: Err carries the unchanged original
        fn = "try_unwrap_%s_when_it_is_not" % x.snake
        body = "        let v = any_e();\n        kani::assume(!matches!(v, %s));\n        let mut m = v;\n" % x.pat("_", True)
        body += "        match v.try_unwrap_%s() { Ok(_) => assert!(false, \"Ok for another variant\"), Err(e) => assert!(e.input == v, \"owned: input is not the original value\") }\n" % x.snake
        body += "        match v.try_unwrap_%s_ref() { Ok(_) => assert!(false, \"Ok for another variant\"), Err(e) => assert!(ptr::eq(e.input, &v), \"ref: input is not the original reference\") }\n" % x.snake
        body += "        let addr = &m as *const E as usize;\n"
        body += "        match m.try_unwrap_%s_mut() { Ok(_) => assert!(false, \"Ok for another variant\"), Err(e) => assert!(e.input as *mut E as usize == addr, \"mut: input is not the original reference\") }\n" % x.snake
        body += "        assert!(m == v, \"value changed by a failed try_unwrap\");\n        kani::cover!(true, \"reach end\");\n"
        src += "    #[kani::proof]\n    fn %s() {\n%s    }\n" % (fn, body)
        hs.append(Harness(fn, "the value ranges over all other variants, payloads symbolic", covers=1,
                          asserts="try_unwrap_%s{,_ref,_mut} is Err and err.input is the unchanged original" % x.snake))
        # (c) must-panic: unwrap on another variant
        fn = "unwrap_%s_panics_when_it_is_not" % x.snake
        body = "        let v = any_e();\n        kani::assume(!matches!(v, %s));\n        let mut m = v;\n" % x.pat("_", True)
        body += "        match kani::any::<u8>() %% 3 {\n            0 => { let _ = v.unwrap_%s(); }\n            1 => { let _ = v.unwrap_%s_ref(); }\n            _ => { let _ = m.unwrap_%s_mut(); }\n        }\n" % (x.snake, x.snake, x.snake)
        body += "        kani::cover!(true, \"must-panic: an unwrap on another variant returned\");\n"
        src += "    #[kani::proof]\n    #[kani::should_panic]\n    fn %s() {\n%s    }\n" % (fn, body)
        hs.append(Harness(fn, "the value ranges over all other variants; which of owned/ref/mut is called is symbolic",
                          should_panic=True, unreachable_covers=1,
                          asserts="every one of unwrap_%s, unwrap_%s_ref, unwrap_%s_mut panics on every other variant (the statement after the call is unreachable)" % (x.snake, x.snake, x.snake)))
    return Shape(name, module(decl, any_e(variants), src), hs, decl.replace("\n", " "),
                 exercises=["impl/src/is_variant.rs::expand", "impl/src/unwrap.rs::expand", "impl/src/try_unwrap.rs::expand",
                            "src/try_unwrap.rs::TryUnwrapError"], quick=quick)


# ---------------------------------------------------------------------------------------------------
# TryInto

def try_into_shape(name, variants, quick=True):
    decl = "#[derive(Clone, Copy, PartialEq, Debug, derive_more::TryInto, derive_more::IsVariant)]\n#[try_into(owned, ref, ref_mut)]\n" \
           "pub enum E {\n%s\n}" % "\n".join(v.decl("try_into") for v in variants)
    live = [v for v in variants if not v.ignored]
    groups = {}
    for v in live:
        key = tuple(t for i, t in enumerate(v.tys) if i not in v.field_ignored)
        groups.setdefault(key, []).append(v)
    hs, src = [], ""
    # is_variant for named variants too
    lines = ["        assert!(v.is_%s() == matches!(v, %s));" % (x.snake, x.pat("_", True)) for x in variants]
    src += "    #[kani::proof]\n    fn is_variant_table() {\n        let v = any_e();\n%s\n        kani::cover!(true, \"reach end\");\n    }\n" % "\n".join(lines)
    hs.append(Harness("is_variant_table", "the value: variant and payloads symbolic", covers=1,
                      asserts="is_x() == (v is X) incl. named variants"))
    for key, members in groups.items():
        n = len(key)
        tag = "_".join(key).lower() or "unit"
        ty_o, ty_r, ty_m = tuple_ty(key), tuple_ty(key, "&"), tuple_ty(key, "&mut ")
        if n == 0:
            ty_o = ty_r = ty_m = "()"
        def binds(pre):  # noqa
            return ", ".join("%s%d" % (pre, i) for i in range(n))
        arms_o, arms_r = [], []
        for x in members:
            idx = [i for i in range(len(x.tys)) if i not in x.field_ignored]
            # pattern binding only enabled fields as l0..ln
            if x.kind == "unit":
                pat = "E::" + x.name
            elif x.kind == "tuple":
                pat = "E::%s(%s)" % (x.name, ", ".join(("l%d" % idx.index(i)) if i in idx else "_" for i in range(len(x.tys))))
            else:
                pat = "E::%s { %s }" % (x.name, ", ".join(("%s: l%d" % (Var.NAMES[i], idx.index(i))) if i in idx else ("%s: _" % Var.NAMES[i]) for i in range(len(x.tys))))
            eq = " && ".join("p%d == l%d" % (i, i) for i in range(n)) or "true"
            pe = " && ".join("ptr::eq(p%d, l%d)" % (i, i) for i in range(n)) or "true"
            got = "()" if n == 0 else ("p0" if n == 1 else "(%s)" % binds("p"))
            arms_o.append("            %s => assert!(matches!(r, Ok(%s) if %s), \"owned: Ok with the fields in order expected\")," % (pat, got, eq))
            arms_r.append("            %s => assert!(matches!(r, Ok(%s) if %s), \"ref: Ok with references to the very fields expected\")," % (pat, got, pe))
        fn = "try_from_enum_for_%s" % tag
        body = "        let v = any_e();\n        let mut m = v;\n"
        body += "        {\n            let r = <%s as core::convert::TryFrom<E>>::try_from(v);\n            kani::cover!(r.is_ok(), \"reach Ok\");\n            kani::cover!(r.is_err(), \"reach Err\");\n            match v {\n%s\n                _ => assert!(matches!(r, Err(e) if e.input == v), \"owned: Err must carry the original value\"),\n            }\n        }\n" % (
            ty_o, "\n".join("    " + a for a in arms_o))
        body += "        {\n            let r = <%s as core::convert::TryFrom<&E>>::try_from(&v);\n            match &v {\n%s\n                _ => assert!(matches!(r, Err(e) if ptr::eq(e.input, &v)), \"ref: Err must carry the original reference\"),\n            }\n        }\n" % (
            ty_r, "\n".join("    " + a for a in arms_r))
        # mutable: compare addresses
        addr_arms = []
        for x in members:
            idx = [i for i in range(len(x.tys)) if i not in x.field_ignored]
            if x.kind == "unit":
                pat = "E::" + x.name
            elif x.kind == "tuple":
                pat = "E::%s(%s)" % (x.name, ", ".join(("l%d" % idx.index(i)) if i in idx else "_" for i in range(len(x.tys))))
            else:
                pat = "E::%s { %s }" % (x.name, ", ".join(("%s: l%d" % (Var.NAMES[i], idx.index(i))) if i in idx else ("%s: _" % Var.NAMES[i]) for i in range(len(x.tys))))
            addr_arms.append("                %s => Some([%s])," % (pat, ", ".join(["l%d as *const _ as usize" % i for i in range(n)] + ["0"] * (3 - n))))
        body += "        {\n            let want: Option<[usize; 3]> = match &m {\n%s\n                _ => None,\n            };\n            let addr = &m as *const E as usize;\n" % "\n".join(addr_arms)
        got = "()" if n == 0 else ("p0" if n == 1 else "(%s)" % binds("p"))
        body += "            match <%s as core::convert::TryFrom<&mut E>>::try_from(&mut m) {\n                Ok(%s) => assert!(want == Some([%s]), \"mut: Ok must hand out the very fields, for the right variants only\"),\n                Err(e) => assert!(want.is_none() && e.input as *mut E as usize == addr, \"mut: Err must carry the original reference, for the other variants only\"),\n            }\n        }\n" % (
            ty_m, got, ", ".join(["p%d as *mut _ as usize" % i for i in range(n)] + ["0"] * (3 - n)))
        body += "        assert!(m == v, \"value changed by a conversion attempt\");\n"
        src += "    #[kani::proof]\n    fn %s() {\n%s    }\n" % (fn, body)
        hs.append(Harness(fn, "the value: variant and payloads symbolic", covers=2,
                          asserts="TryFrom<E>/<&E>/<&mut E> for %s: Ok with the non-ignored fields in order exactly for {%s}, otherwise Err carrying the original" % (
                              ty_o, ", ".join(x.name for x in members))))
    return Shape(name, module(decl, any_e(variants), src), hs, decl.replace("\n", " "),
                 exercises=["impl/src/try_into.rs::expand", "src/convert.rs::TryIntoError", "impl/src/utils.rs::MultiFieldData::matcher",
                            "impl/src/is_variant.rs::expand"], quick=quick)


TRYINTO_VARIANTS = [
    Var("A", "a", "tuple", ["V"]),
    Var("B", "b", "tuple", ["W"]),
    Var("C", "c", "tuple", ["V"]),
    Var("P", "p", "tuple", ["V", "W"]),
    Var("N", "n", "named", ["V", "W"]),
    Var("U", "u", "unit", []),
    Var("Ig", "ig", "tuple", ["W", "W"], attrs="#[try_into(ignore)]", ignored=True),
    Var("F", "f", "tuple", ["V", "W", "W"], field_ignored=(1,)),
    Var("T", "t", "named", ["W", "V", "W"]),
]

TRYINTO_SMALL = [
    Var("X", "x", "tuple", ["V", "V"]),
    Var("Y", "y", "named", ["V", "V"]),
    Var("Z", "z", "tuple", ["W"], attrs="#[try_into(ignore)]", ignored=True),
    Var("Unit", "unit", "unit", []),
    Var("Other", "other", "unit", []),
]

# a bare `#[try_into]` on a FIELD is accepted and changes nothing: its siblings stay part of the tuple (seed C11-field-level-bare-attr-disables-siblings)
TRYINTO_BARE_FIELD = [
    Var("Pair", "pair", "tuple", ["V", "W"], field_bare=(0,)),
    Var("Small", "small", "tuple", ["V"]),
    Var("Other", "other", "named", ["V", "W"], field_bare=(1,)),
    Var("Three", "three", "tuple", ["W", "V", "W"], field_bare=(1,), field_ignored=(2,)),
]

# the ignored field sits at a different position in variants of one arity and one target tuple (round 13)
TRYINTO_IGNORE_POSITIONS = [
    Var("Tagged", "tagged", "tuple", ["V", "V"], field_ignored=(0,)),
    Var("Stamped", "stamped", "tuple", ["V", "V"], field_ignored=(1,)),
    Var("Lone", "lone", "tuple", ["V"]),
    Var("Mid", "mid", "named", ["V", "V", "V"], field_ignored=(0,)),
    Var("End", "end", "named", ["V", "V", "V"], field_ignored=(2,)),
    Var("Centre", "centre", "tuple", ["V", "V", "V"], field_ignored=(1,)),
]

# variants whose fields are ALL ignored belong to the `()` group, next to unit and explicitly empty variants
TRYINTO_ALL_IGNORED = [
    Var("Unit", "unit", "unit", []),
    Var("Marker", "marker", "tuple", ["V"], field_ignored=(0,)),
    Var("Tagged", "tagged", "named", ["W", "V"], field_ignored=(0, 1)),
    Var("Half", "half", "tuple", ["V", "W"], field_ignored=(1,)),
    Var("Empty", "empty", "tuple", []),
]


def generic_shape():
    """lifetime- and type-generic enums instantiated with T = V.  (`TryInto` needs the payload types to cover the type
    parameter - `impl<T> TryFrom<G<T>> for T` is rejected by the orphan rule - hence the local wrapper `Wr`.)"""
    decl = ("#[derive(Clone, Copy, PartialEq, Debug, derive_more::IsVariant, derive_more::Unwrap, derive_more::TryUnwrap)]\n"
            "#[unwrap(owned, ref)]\n#[try_unwrap(owned, ref)]\n"
            "pub enum G<'a, T: Copy> {\n    Borrowed(&'a T),\n    Owned(T),\n    Both(T, &'a T),\n    Nothing,\n}\n\n"
            "#[derive(Clone, Copy, PartialEq, Debug)]\npub struct Wr<'a, T>(pub &'a T, pub u32);\n\n"
            "#[derive(Clone, Copy, PartialEq, Debug, derive_more::TryInto, derive_more::IsVariant)]\n#[try_into(owned, ref)]\n"
            "pub enum H<'a, T: Copy, const N: usize> {\n    One(Wr<'a, T>),\n    Two(Wr<'a, T>, u8),\n    AlsoOne(Wr<'a, T>),\n    Nothing,\n}")
    helpers = ("    static ANCHOR: V = V(7);\n    fn any_g() -> G<'static, V> {\n        match kani::any::<u8>() % 4 {\n            0 => G::Borrowed(&ANCHOR),\n"
               "            1 => G::Owned(V(kani::any())),\n            2 => G::Both(V(kani::any()), &ANCHOR),\n            _ => G::Nothing,\n        }\n    }\n"
               "    fn any_h() -> H<'static, V, 2> {\n        match kani::any::<u8>() % 4 {\n            0 => H::One(Wr(&ANCHOR, kani::any())),\n"
               "            1 => H::Two(Wr(&ANCHOR, kani::any()), kani::any()),\n            2 => H::AlsoOne(Wr(&ANCHOR, kani::any())),\n            _ => H::Nothing,\n        }\n    }\n")
    src = """    #[kani::proof]
    fn generic_accessor_table() {
        let v = any_g();
        assert!(v.is_borrowed() == matches!(v, G::Borrowed(..)));
        assert!(v.is_owned() == matches!(v, G::Owned(..)));
        assert!(v.is_both() == matches!(v, G::Both(..)));
        assert!(v.is_nothing() == matches!(v, G::Nothing));
        match v.try_unwrap_owned() {
            Ok(p) => assert!(matches!(v, G::Owned(l) if l == p), "try_unwrap_owned: wrong payload or variant"),
            Err(e) => assert!(!matches!(v, G::Owned(..)) && e.input == v, "try_unwrap_owned: Err must carry the original"),
        }
        match v.try_unwrap_both_ref() {
            Ok((p0, p1)) => assert!(matches!(&v, G::Both(l0, l1) if ptr::eq(p0, l0) && ptr::eq(p1, l1))),
            Err(e) => assert!(!matches!(v, G::Both(..)) && ptr::eq(e.input, &v)),
        }
        kani::cover!(v.is_both(), "reach Both");
        kani::cover!(v.is_nothing(), "reach Nothing");
    }
    #[kani::proof]
    fn generic_try_into_table() {
        let v = any_h();
        match <Wr<'static, V> as core::convert::TryFrom<H<'static, V, 2>>>::try_from(v) {
            Ok(p) => assert!(matches!(v, H::One(l) | H::AlsoOne(l) if l == p), "Ok for a variant with another payload tuple"),
            Err(e) => assert!(!matches!(v, H::One(..) | H::AlsoOne(..)) && e.input == v, "Err must carry the original"),
        }
        match <(Wr<'static, V>, u8) as core::convert::TryFrom<H<'static, V, 2>>>::try_from(v) {
            Ok((p0, p1)) => assert!(matches!(v, H::Two(l0, l1) if l0 == p0 && l1 == p1)),
            Err(e) => assert!(!matches!(v, H::Two(..)) && e.input == v),
        }
        match <(&Wr<'static, V>, &u8) as core::convert::TryFrom<&H<'static, V, 2>>>::try_from(&v) {
            Ok((p0, p1)) => assert!(matches!(&v, H::Two(l0, l1) if ptr::eq(l0, p0) && ptr::eq(l1, p1))),
            Err(e) => assert!(!matches!(v, H::Two(..)) && ptr::eq(e.input, &v)),
        }
        match <() as core::convert::TryFrom<H<'static, V, 2>>>::try_from(v) {
            Ok(()) => assert!(v.is_nothing()),
            Err(e) => assert!(!v.is_nothing() && e.input == v),
        }
        kani::cover!(v.is_two(), "reach Two");
        kani::cover!(v.is_also_one(), "reach AlsoOne");
    }
    #[kani::proof]
    #[kani::should_panic]
    fn generic_unwrap_panics_when_it_is_not() {
        let v = any_g();
        kani::assume(!matches!(v, G::Owned(..)));
        if kani::any() { let _ = v.unwrap_owned(); } else { let _ = v.unwrap_owned_ref(); }
        kani::cover!(true, "must-panic: an unwrap on another variant returned");
    }
"""
    hs = [Harness("generic_accessor_table", "variant and payload symbolic", covers=2,
                  asserts="is_x, try_unwrap_x{,_ref} on a lifetime- and type-generic enum"),
          Harness("generic_try_into_table", "variant and payloads symbolic", covers=2,
                  asserts="TryFrom<H>/<&H> for each payload tuple of a lifetime-, type- and const-generic enum"),
          Harness("generic_unwrap_panics_when_it_is_not", "all other variants; owned/ref form symbolic", should_panic=True,
                  unreachable_covers=1, asserts="unwrap_owned{,_ref} panics on every other variant")]
    return Shape("c11_generic", module(decl, helpers, src), hs, decl.replace("\n", " "),
                 exercises=["impl/src/is_variant.rs::expand", "impl/src/unwrap.rs::expand", "impl/src/try_unwrap.rs::expand",
                            "impl/src/try_into.rs::expand"])


def ignored_unwrap_shape():
    variants = [Var("Keep", "keep", "tuple", ["V"]),
                Var("Skip", "skip", "tuple", ["W"], attrs="#[is_variant(ignore)]\n    #[unwrap(ignore)]\n    #[try_unwrap(ignore)]", ignored=True),
                Var("V2", "v_2", "tuple", ["V", "V"]),
                Var("Last", "last", "unit", [])]
    sh = unwrap_shape("c11_unwrap_with_ignored_variant", variants)
    return sh


def selection_shapes():
    """No enum-level attribute: variants are selected by variant-level attributes only.  A variant without any attribute next to an
    ignored one (declared first) and an explicitly enabled one is *not ignored*, so its accessors / conversions must exist and work."""
    out = []
    variants = [Var("H", "h", "tuple", ["V"], attrs="#[try_into(ignore)]", ignored=True), Var("M", "m", "tuple", ["V"], attrs="#[try_into]"),
                Var("P", "p", "tuple", ["V"]), Var("N", "n", "named", ["W"])]
    decl = "#[derive(Clone, Copy, PartialEq, Debug, derive_more::TryInto)]\npub enum E {\n%s\n}" % "\n".join(v.decl("try_into") for v in variants)
    src = """    #[kani::proof]
    fn try_from_enum_selected_by_variant_attributes() {
        let v = any_e();
        let r = <V as core::convert::TryFrom<E>>::try_from(v);
        kani::cover!(r.is_ok(), "reach Ok");
        kani::cover!(r.is_err(), "reach Err");
        match v {
            E::M(l0) | E::P(l0) => assert!(matches!(r, Ok(p0) if p0 == l0), "Ok with the field expected for the enabled and for the un-attributed variant"),
            _ => assert!(matches!(r, Err(e) if e.input == v), "Err must carry the original value (ignored variant, other payload type)"),
        }
        let r = <W as core::convert::TryFrom<E>>::try_from(v);
        match v {
            E::N { a: l0 } => assert!(matches!(r, Ok(p0) if p0 == l0), "named un-attributed variant converts"),
            _ => assert!(matches!(r, Err(e) if e.input == v), "Err must carry the original value"),
        }
    }
"""
    out.append(Shape("c11_try_into_ignore_then_explicit_then_plain", module(decl, any_e(variants), src),
                     [Harness("try_from_enum_selected_by_variant_attributes", "the value: variant and payloads symbolic", covers=2,
                              asserts="TryFrom<E> for V succeeds exactly for the enabled and the un-attributed V variants; the ignored one returns Err(input)")],
                     decl.replace("\n", " "), exercises=["impl/src/try_into.rs::expand", "impl/src/utils.rs::State::new_impl (default_enabled)"]))
    variants = [Var("H", "h", "tuple", ["V"], attrs="#[is_variant(ignore)]\n    #[unwrap(ignore)]\n    #[try_unwrap(ignore)]", ignored=True),
                Var("M", "m", "tuple", ["V"], attrs="#[unwrap(ref)]\n    #[try_unwrap(ref)]"),
                Var("P", "p", "tuple", ["V", "W"]), Var("U", "u", "unit", [])]
    decl = ("#[derive(Clone, Copy, PartialEq, Debug, derive_more::IsVariant, derive_more::Unwrap, derive_more::TryUnwrap)]\npub enum E {\n%s\n}" %
            "\n".join(v.decl() for v in variants))
    src = """    #[kani::proof]
    fn accessors_selected_by_variant_attributes() {
        let v = any_e();
        assert!(v.is_m() == matches!(v, E::M(..)) && v.is_p() == matches!(v, E::P(..)) && v.is_u() == matches!(v, E::U));
        kani::cover!(v.is_p(), "reach P");
        kani::cover!(v.is_m(), "reach M");
        match &v {
            E::P(l0, l1) => {
                let (p0, p1) = v.unwrap_p();
                assert!(p0 == *l0 && p1 == *l1, "unwrap_p: payload not in declaration order");
                let (q0, q1) = v.try_unwrap_p().ok().unwrap();
                assert!(q0 == *l0 && q1 == *l1, "try_unwrap_p: payload not in declaration order");
            }
            E::M(_) => {
                assert!(matches!(v.try_unwrap_p(), Err(e) if e.input == v), "try_unwrap_p on another variant must return the original");
            }
            E::U => { v.unwrap_u(); assert!(v.try_unwrap_u().is_ok()); }
            _ => assert!(matches!(v.try_unwrap_p(), Err(e) if e.input == v), "try_unwrap_p on another variant must return the original"),
        }
    }
"""
    out.append(Shape("c11_unwrap_ignore_then_explicit_then_plain", module(decl, any_e(variants), src),
                     [Harness("accessors_selected_by_variant_attributes", "the value: variant and payloads symbolic", covers=2,
                              asserts="accessors of the un-attributed variants exist and agree with the value")],
                     decl.replace("\n", " "), exercises=["impl/src/unwrap.rs::expand", "impl/src/try_unwrap.rs::expand", "impl/src/is_variant.rs::expand",
                                                          "impl/src/utils.rs::State::new_impl (default_enabled)"]))
    # variant-level owned / ref / ref_mut next to an enum-level selection: the variant keeps the kinds it inherits from the enum
    variants = [Var("Small", "small", "tuple", ["V"]), Var("Counter", "counter", "tuple", ["V"], attrs="#[try_into(ref_mut)]"),
                Var("Cached", "cached", "named", ["V"], attrs="#[try_into(ref)]"), Var("Text", "text", "tuple", ["W"]),
                Var("Hidden", "hidden", "tuple", ["V"], attrs="#[try_into(ignore)]", ignored=True)]
    decl = ("#[derive(Clone, Copy, PartialEq, Debug, derive_more::TryInto)]\n#[try_into(owned, ref)]\npub enum E {\n%s\n}"
            % "\n".join(v.decl("try_into") for v in variants))
    src = """    #[kani::proof]
    fn variant_level_kinds_add_to_the_enum_level_ones() {
        let mut v = any_e();
        let holds_v = matches!(v, E::Small(..) | E::Counter(..) | E::Cached { .. });
        match <V as core::convert::TryFrom<E>>::try_from(v) {
            Ok(p) => assert!(matches!(v, E::Small(l) | E::Counter(l) | E::Cached { a: l } if l == p), "owned: Ok for a variant with another payload"),
            Err(e) => assert!(!holds_v && e.input == v, "owned: a non-ignored variant holding a V was refused (or the error lost the original)"),
        }
        match <&V as core::convert::TryFrom<&E>>::try_from(&v) {
            Ok(p) => assert!(matches!(&v, E::Small(l) | E::Counter(l) | E::Cached { a: l } if ptr::eq(l, p)), "ref: not the payload itself"),
            Err(e) => assert!(!holds_v && ptr::eq(e.input, &v), "ref: a non-ignored variant holding a V was refused"),
        }
        match <W as core::convert::TryFrom<E>>::try_from(v) {
            Ok(p) => assert!(matches!(v, E::Text(l) if l == p)),
            Err(e) => assert!(!matches!(v, E::Text(..)) && e.input == v),
        }
        let was_counter = matches!(v, E::Counter(..));
        let nv: u32 = kani::any();
        if let Ok(m) = <&mut V as core::convert::TryFrom<&mut E>>::try_from(&mut v) {
            m.0 = nv;
            assert!(matches!(v, E::Small(V(x)) | E::Counter(V(x)) | E::Cached { a: V(x) } if x == nv), "ref_mut: the write did not land in the payload");
        } else {
            assert!(!was_counter, "ref_mut: the variant that asks for ref_mut was refused");
        }
        kani::cover!(matches!(v, E::Counter(..)), "reach Counter");
        kani::cover!(matches!(v, E::Cached { .. }), "reach Cached");
        kani::cover!(matches!(v, E::Hidden(..)), "reach the ignored variant");
    }
"""
    out.append(Shape("c11_try_into_variant_level_kinds", module(decl, any_e(variants), src),
                     [Harness("variant_level_kinds_add_to_the_enum_level_ones", "the value: variant and payloads symbolic; the written value symbolic", covers=3,
                              asserts="owned and ref TryFrom succeed exactly for the non-ignored variants holding the target type, also for variants that carry "
                                      "their own ref / ref_mut selection; ref_mut exists for the variant that asks for it and writes land in the payload")],
                     decl.replace("\n", " "), exercises=["impl/src/try_into.rs::expand (ref_types of a variant)", "impl/src/utils.rs::FullMetaInfo::ref_types"]))
    # the FIRST attributed variant names `owned` explicitly; a later variant with the same payload type relies on the default selection
    # (seed C11-owned-default-parenthesization flipped that default)
    variants = [Var("A", "a", "tuple", ["V"], attrs="#[try_into(owned)]"), Var("B", "b", "tuple", ["V"], attrs="#[try_into]"), Var("C", "c", "tuple", ["W"], attrs="#[try_into]"),
                Var("D", "d", "tuple", ["V"], attrs="#[try_into(owned, ref)]")]
    decl = ("#[derive(Clone, Copy, PartialEq, Debug, derive_more::TryInto)]\npub enum E {\n%s\n}\n\n"
            "#[derive(Clone, Copy, PartialEq, Debug, derive_more::Unwrap, derive_more::TryUnwrap)]\npub enum U {\n    #[unwrap(owned)]\n    #[try_unwrap(owned)]\n    A(V),\n    #[unwrap]\n    #[try_unwrap]\n    B(V),\n    #[unwrap(owned, ref)]\n    #[try_unwrap(owned, ref)]\n    C(W),\n}\n\n"
            "#[derive(Clone, Copy, PartialEq, Debug, derive_more::Unwrap, derive_more::TryUnwrap)]\n#[unwrap(owned)]\n#[try_unwrap(owned)]\npub enum U3 {\n    A(V),\n    #[unwrap(ref_mut)]\n    #[try_unwrap(ref)]\n    C(W),\n}"
            % "\n".join(v.decl("try_into") for v in variants))
    src = """    #[kani::proof]
    fn explicit_owned_on_the_first_attributed_variant() {
        let v = any_e();
        match <V as core::convert::TryFrom<E>>::try_from(v) {
            Ok(p) => assert!(matches!(v, E::A(l) | E::B(l) | E::D(l) if l == p)),
            Err(e) => assert!(matches!(v, E::C(..)) && e.input == v, "owned TryFrom refused a non-ignored variant holding a V"),
        }
        match <W as core::convert::TryFrom<E>>::try_from(v) {
            Ok(p) => assert!(matches!(v, E::C(l) if l == p)),
            Err(e) => assert!(!matches!(v, E::C(..)) && e.input == v, "owned TryFrom refused the variant enabled by a bare #[try_into]"),
        }
        let u = match kani::any::<u8>() % 3 { 0 => U::A(V(kani::any())), 1 => U::B(V(kani::any())), _ => U::C(W(kani::any())) };
        if let U::A(l) = u { assert!(u.unwrap_a() == l && u.try_unwrap_a() == Ok(l)); }
        if let U::B(l) = u { assert!(u.unwrap_b() == l && u.try_unwrap_b() == Ok(l)); }
        if let U::C(l) = u { assert!(u.unwrap_c() == l && *u.unwrap_c_ref() == l && u.try_unwrap_c() == Ok(l)); }
        // a kind selected on the variant only (documented: "on the enum declaration or that variant") adds to the enum-level selection
        let mut u3 = if kani::any() { U3::A(V(kani::any())) } else { U3::C(W(kani::any())) };
        if let U3::C(l) = u3 {
            assert!(u3.unwrap_c() == l && u3.try_unwrap_c() == Ok(l) && u3.try_unwrap_c_ref().ok() == Some(&l));
            let nv: u32 = kani::any();
            u3.unwrap_c_mut().0 = nv;
            assert!(matches!(u3, U3::C(W(x)) if x == nv), "unwrap_c_mut does not hand out the payload");
        } else {
            assert!(u3.try_unwrap_c_ref().is_err() && u3.try_unwrap_a().is_ok());
        }
        kani::cover!(matches!(v, E::B(..)), "reach B");
        kani::cover!(matches!(u, U::B(..)), "reach U::B");
    }
"""
    out.append(Shape("c11_explicit_owned_first", module(decl, any_e(variants), src),
                     [Harness("explicit_owned_on_the_first_attributed_variant", "the values: variant and payloads symbolic", covers=2,
                              asserts="owned accessors / conversions exist and succeed for every non-ignored variant when the first attributed variant names `owned` explicitly")],
                     decl.replace("\n", " "), exercises=["impl/src/utils.rs::State::new_impl (defaults of owned / ref / ref_mut)", "impl/src/try_into.rs::expand",
                                                          "impl/src/unwrap.rs::expand", "impl/src/try_unwrap.rs::expand"]))
    # exactly one non-ignored variant: `is_x()` still has to look at the value
    variants = [Var("Data", "data", "tuple", ["V"]), Var("Heartbeat", "heartbeat", "unit", [], attrs="#[is_variant(ignore)]", ignored=True),
                Var("Other", "other", "tuple", ["W"], attrs="#[is_variant(ignore)]", ignored=True)]
    decl = "#[derive(Clone, Copy, PartialEq, Debug, derive_more::IsVariant)]\npub enum E {\n%s\n}" % "\n".join(v.decl() for v in variants)
    src = """    #[kani::proof]
    fn is_variant_with_a_single_enabled_variant() {
        let v = any_e();
        assert!(v.is_data() == matches!(v, E::Data(..)), "is_data() must be true iff the value is Data - also for values of the ignored variants");
        kani::cover!(v.is_data(), "reach Data");
        kani::cover!(matches!(v, E::Heartbeat), "reach an ignored variant");
    }
"""
    out.append(Shape("c11_is_variant_single_enabled_variant", module(decl, any_e(variants), src),
                     [Harness("is_variant_with_a_single_enabled_variant", "the value: variant and payloads symbolic", covers=2,
                              asserts="is_x() == (v is X) when X is the only non-ignored variant")],
                     decl.replace("\n", " "), exercises=["impl/src/is_variant.rs::expand"]))
    return out


def shapes(tier):
    out = [unwrap_shape("c11_unwrap_mixed", UNWRAP_VARIANTS),
           ignored_unwrap_shape(),
           try_into_shape("c11_try_into_shared_tuples", TRYINTO_VARIANTS),
           try_into_shape("c11_try_into_small", TRYINTO_SMALL, quick=False),
           try_into_shape("c11_try_into_all_fields_ignored", TRYINTO_ALL_IGNORED),
           try_into_shape("c11_try_into_bare_field_attr", TRYINTO_BARE_FIELD),
           try_into_shape("c11_try_into_ignore_positions", TRYINTO_IGNORE_POSITIONS),
           generic_shape()] + selection_shapes()
    # the whole grid costs ~20 s: quick and thorough run all of it
    return out


DESCRIPTION = {
    "grid": "enums with unit and 1-3-field tuple variants (two variants with identical payload types, acronym and digit names for "
            "snake_casing), an ignored variant, named variants for IsVariant/TryInto, ignored fields for TryInto, several variants "
            "sharing one target tuple, owned/ref/ref_mut forms, one lifetime- and type-generic enum",
    "symbolic": "the value: its variant and every payload (free u32); for must-panic harnesses which of the owned/ref/mut forms is called",
    "oracle": "pattern matching on the value itself; pointer identity with the fields for the reference forms",
    "not_covered": ["that no method exists for an ignored variant (absence is a name-resolution fact)",
                    "enums outside the grid"],
}
