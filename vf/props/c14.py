"""C14 - delegating derives expose the selected field itself.

The inner type `Inner` implements each delegated trait by returning a reference to a *different* sub-object
(`items`, `other`, `tag`, or a static decoy), so "the field itself", "what the field's own impl returns" and
"something else" are three distinguishable addresses."""
from ..shapes import Shape, Harness

SUPPORT = """use core::ops::{Deref, DerefMut, Index, IndexMut};

#[derive(Clone, Copy, PartialEq, Eq, Debug)]
pub struct Inner { pub items: [u8; 3], pub other: [u8; 3], pub tag: u32 }
/// a second field type, to sit next to the selected field
#[derive(Clone, Copy, PartialEq, Eq, Debug)]
pub struct Side { pub items: [u8; 3], pub tag: u32 }

pub static DECOY: Inner = Inner { items: [9; 3], other: [8; 3], tag: 77 };
pub static mut DECOY_MUT: Inner = Inner { items: [9; 3], other: [8; 3], tag: 77 };

impl Deref for Inner { type Target = [u8; 3]; fn deref(&self) -> &[u8; 3] { &self.items } }
impl DerefMut for Inner { fn deref_mut(&mut self) -> &mut [u8; 3] { &mut self.items } }
impl Index<usize> for Inner { type Output = u8; fn index(&self, i: usize) -> &u8 { &self.other[i] } }
impl IndexMut<usize> for Inner { fn index_mut(&mut self, i: usize) -> &mut u8 { &mut self.other[i] } }
impl AsRef<[u8; 3]> for Inner { fn as_ref(&self) -> &[u8; 3] { &self.other } }
impl AsRef<u32> for Inner { fn as_ref(&self) -> &u32 { &self.tag } }
impl AsMut<[u8; 3]> for Inner { fn as_mut(&mut self) -> &mut [u8; 3] { &mut self.other } }
impl AsMut<u32> for Inner { fn as_mut(&mut self) -> &mut u32 { &mut self.tag } }
/// deliberately NOT the identity: a forwarded `AsRef<Inner>` call is distinguishable from "the field itself"
impl AsRef<Inner> for Inner { fn as_ref(&self) -> &Inner { &DECOY } }
impl AsMut<Inner> for Inner { fn as_mut(&mut self) -> &mut Inner { unsafe { &mut *core::ptr::addr_of_mut!(DECOY_MUT) } } }
impl IntoIterator for Inner { type Item = u8; type IntoIter = core::array::IntoIter<u8, 3>; fn into_iter(self) -> Self::IntoIter { self.items.into_iter() } }
impl<'a> IntoIterator for &'a Inner { type Item = &'a u8; type IntoIter = core::slice::Iter<'a, u8>; fn into_iter(self) -> Self::IntoIter { self.items.iter() } }
impl<'a> IntoIterator for &'a mut Inner { type Item = &'a mut u8; type IntoIter = core::slice::IterMut<'a, u8>; fn into_iter(self) -> Self::IntoIter { self.items.iter_mut() } }

pub type InnerAlias = Inner;
/// a listed type that mentions a type parameter of the deriving struct, with a distinguishable result
pub struct Gen<T>(pub T);
pub static GEN: Gen<u8> = Gen(1);
impl AsRef<Gen<u8>> for Inner { fn as_ref(&self) -> &Gen<u8> { &GEN } }

#[cfg(kani)]
pub fn any_inner() -> Inner { Inner { items: kani::any(), other: kani::any(), tag: kani::any() } }
#[cfg(kani)]
pub fn any_side() -> Side { Side { items: kani::any(), tag: kani::any() } }
"""

HEAD = "#![allow(dead_code, unused, clippy::all)]\nuse crate::support::*;\nuse core::ptr;\nuse core::ops::{Deref, DerefMut, Index, IndexMut};\n\n"


def module(decls, harness_src):
    return HEAD + decls + "\n\n#[cfg(kani)]\nmod proofs {\n    use super::*;\n" + harness_src + "}\n"


# layouts: (tag, struct body with {SEL}/{IGN} placeholders, constructor, selected field accessor, other accessors)
def layouts(attr):
    sel, ign = "#[%s]" % attr, "#[%s(ignore)]" % attr
    return [
        ("tuple1", "pub struct S(pub Inner);", "S(any_inner())", "0", []),
        ("named1", "pub struct S { pub a: Inner }", "S { a: any_inner() }", "a", []),
        ("tuple3_mid", "pub struct S(pub Inner, %s pub Inner, pub Side);" % sel, "S(any_inner(), any_inner(), any_side())", "1", ["0", "2"]),
        ("named3_last", "pub struct S { pub a: Side, pub b: Inner, %s pub c: Inner }" % sel,
         "S { a: any_side(), b: any_inner(), c: any_inner() }", "c", ["a", "b"]),
        ("named2_ignore_first", "pub struct S { %s pub a: Inner, pub b: Inner }" % ign, "S { a: any_inner(), b: any_inner() }", "b", ["a"]),
        ("tuple3_ignore_others", "pub struct S(pub Inner, %s pub Side, %s pub Inner);" % (ign, ign),
         "S(any_inner(), any_side(), any_inner())", "0", ["1", "2"]),
    ]


def deref_shapes():
    out = []
    for tag, body, ctor, f, others in layouts("deref"):
        body_mut = body
        # DerefMut needs its own selection attributes
        for a in ("#[deref]", "#[deref(ignore)]"):
            body_mut = body_mut.replace(a, a + " " + a.replace("deref", "deref_mut"))
        decl = "#[derive(Clone, Copy, PartialEq, Debug, derive_more::Deref, derive_more::DerefMut)]\n" + body_mut
        unchanged = "".join("        assert!(s.%s == before.%s, \"write through DerefMut changed another field\");\n" % (o, o) for o in others)
        src = """    #[kani::proof]
    fn deref_is_the_field() {
        let mut s = %(ctor)s;
        let before = s;
        assert!(ptr::eq::<Inner>(&*s, &s.%(f)s), "Deref target is not the selected field's own storage");
        let want = &s.%(f)s as *const Inner as usize;
        let nv: u32 = kani::any();
        {
            let m: &mut Inner = &mut *s;
            assert!(m as *mut Inner as usize == want, "DerefMut target is not the selected field's own storage");
            m.tag = nv;
        }
        assert!(s.%(f)s.tag == nv, "write through DerefMut is not visible in the field");
%(unchanged)s        kani::cover!(true, "reach end");
    }
""" % dict(ctor=ctor, f=f, unchanged=unchanged)
        hs = [Harness("deref_is_the_field", "all field contents and the written value symbolic", covers=1,
                      asserts="&*s and &mut *s are the selected field (same address); a write lands in it and in no other field")]
        out.append(Shape("c14_deref_%s" % tag, module(decl, src), hs, decl.replace("\n", " "),
                         exercises=["impl/src/deref.rs::expand", "impl/src/deref_mut.rs::expand", "impl/src/utils.rs::State (field selection)"]))
    # forward
    for tag, top, body, ctor, f in (
            ("tuple1", "#[deref(forward)]\n#[deref_mut(forward)]\n", "pub struct S(pub Inner);", "S(any_inner())", "0"),
            ("named2_field_level", "", "pub struct S { pub a: Side, #[deref(forward)] #[deref_mut(forward)] pub b: Inner }",
             "S { a: any_side(), b: any_inner() }", "b"),
            ("named2_ignore_other", "#[deref(forward)]\n#[deref_mut(forward)]\n",
             "pub struct S { #[deref(ignore)] #[deref_mut(ignore)] pub a: Inner, pub b: Inner }", "S { a: any_inner(), b: any_inner() }", "b"),
            # `forward` on the struct, the bare marker on the selected field: the marker selects, it does not switch forwarding off
            ("tuple1_struct_forward_field_marker", "#[deref(forward)]\n#[deref_mut(forward)]\n",
             "pub struct S(#[deref] #[deref_mut] pub Inner);", "S(any_inner())", "0"),
            ("named3_struct_forward_field_marker", "#[deref(forward)]\n#[deref_mut(forward)]\n",
             "pub struct S { #[deref(ignore)] #[deref_mut(ignore)] pub a: Side, #[deref] #[deref_mut] pub b: Inner, #[deref(ignore)] #[deref_mut(ignore)] pub c: Inner }",
             "S { a: any_side(), b: any_inner(), c: any_inner() }", "b")):
        decl = "#[derive(Clone, Copy, PartialEq, Debug, derive_more::Deref, derive_more::DerefMut)]\n" + top + body
        src = """    #[kani::proof]
    fn forwarded_deref_is_what_the_field_derefs_to() {
        let mut s = %(ctor)s;
        // `Target` must be the field's own target: without this a non-forwarded `&Inner` would silently deref-coerce to `&[u8; 3]` below
        fn target_is<T: Deref<Target = U>, U: ?Sized>(_: &T) {}
        target_is::<S, [u8; 3]>(&s);
        let got: &[u8; 3] = &*s;
        assert!(ptr::eq(got, <Inner as Deref>::deref(&s.%(f)s)), "forwarded Deref is not the field's own Deref result");
        assert!(ptr::eq(got, &s.%(f)s.items));
        let want = &s.%(f)s.items as *const [u8; 3] as usize;
        let nv: u8 = kani::any();
        {
            let m: &mut [u8; 3] = &mut *s;
            assert!(m as *mut [u8; 3] as usize == want, "forwarded DerefMut is not the field's own DerefMut result");
            m[1] = nv;
        }
        assert!(s.%(f)s.items[1] == nv);
        kani::cover!(true, "reach end");
    }
""" % dict(ctor=ctor, f=f)
        hs = [Harness("forwarded_deref_is_what_the_field_derefs_to", "all field contents and the written value symbolic", covers=1,
                      asserts="with forward, &*s / &mut *s are exactly what the field's own Deref/DerefMut return")]
        out.append(Shape("c14_deref_forward_%s" % tag, module(decl, src), hs, decl.replace("\n", " "),
                         exercises=["impl/src/deref.rs::expand (forward)", "impl/src/deref_mut.rs::expand (forward)"]))
    return out


def not_forward_shape():
    """`forward` on the struct is only a default: a field-level `not(forward)` switches it off for the selected field, which is then handed out
    itself (seed C14-container-forward-ored-after-merge)."""
    decl = ("#[derive(Clone, Copy, PartialEq, Debug, derive_more::Deref, derive_more::DerefMut)]\n#[deref(forward)]\n#[deref_mut(forward)]\n"
            "pub struct S { #[deref(not(forward))] #[deref_mut(not(forward))] pub a: Inner, #[deref(ignore)] #[deref_mut(ignore)] pub b: Side }")
    src = """    #[kani::proof]
    fn not_forward_overrides_the_struct_level_default() {
        let mut s = S { a: any_inner(), b: any_side() };
        fn target_is<T: Deref<Target = U>, U: ?Sized>(_: &T) {}
        target_is::<S, Inner>(&s);
        assert!(ptr::eq::<Inner>(&*s, &s.a), "with not(forward) on the field, Deref is the field itself");
        let want = &s.a as *const Inner as usize;
        { let m: &mut Inner = &mut *s; assert!(m as *mut Inner as usize == want); }
        kani::cover!(true, "reach end");
    }
"""
    return [Shape("c14_deref_not_forward_on_field", module(decl, src),
                  [Harness("not_forward_overrides_the_struct_level_default", "all field contents symbolic", covers=1,
                           asserts="struct-level forward + field-level not(forward): Target is the field type and &*s is the field")],
                  decl.replace("\n", " "), exercises=["impl/src/deref.rs::expand", "impl/src/deref_mut.rs::expand", "impl/src/utils.rs::MetaInfo::into_full"])]


def reference_field_shape():
    """Without `forward`, a selected field that is itself a reference is handed out as it is: `Target = &T` and `&*s` is the field's own
    storage, not the pointee (seed C14-shared-ref-field-deref-acts-like-forward); `&mut` fields likewise for DerefMut."""
    decl = ("#[derive(derive_more::Deref)]\npub struct R<'a>(pub &'a Inner);\n\n"
            "#[derive(derive_more::Deref)]\npub struct RN<'a> { #[deref] pub r: &'a Side, pub other: Inner }\n\n"
            "#[derive(derive_more::Deref, derive_more::DerefMut)]\npub struct RM<'a>(pub &'a mut Inner);")
    src = """    #[kani::proof]
    fn reference_field_is_handed_out_itself() {
        let mut inner = any_inner();
        let side = any_side();
        fn target_is<T: Deref<Target = U>, U: ?Sized>(_: &T) {}
        {
            let s = R(&inner);
            target_is::<R<'_>, &Inner>(&s);
            assert!(ptr::eq::<&Inner>(&*s, &s.0), "Deref of a reference field is the field's own storage, not the pointee");
            let n = RN { r: &side, other: inner };
            target_is::<RN<'_>, &Side>(&n);
            assert!(ptr::eq::<&Side>(&*n, &n.r), "named, marked reference field: the field itself");
        }
        let mut m = RM(&mut inner);
        target_is::<RM<'_>, &mut Inner>(&m);
        let want = &m.0 as *const &mut Inner as usize;
        assert!(&*m as *const &mut Inner as usize == want);
        { let x: &mut &mut Inner = &mut *m; assert!(x as *mut &mut Inner as usize == want); }
        kani::cover!(true, "reach end");
    }
"""
    return [Shape("c14_deref_reference_field", module(decl, src),
                  [Harness("reference_field_is_handed_out_itself", "all pointee contents symbolic", covers=1,
                           asserts="no forward, field of type &T / &mut T: Target is the reference type and &*s / &mut *s is the field's own storage")],
                  decl.replace("\n", " "), exercises=["impl/src/deref.rs::expand", "impl/src/deref_mut.rs::expand"])]


def index_shapes():
    out = []
    for tag, body, ctor, f, others in layouts("index"):
        body2 = body
        for a in ("#[index]", "#[index(ignore)]"):
            body2 = body2.replace(a, a + " " + a.replace("index", "index_mut"))
        decl = "#[derive(Clone, Copy, PartialEq, Debug, derive_more::Index, derive_more::IndexMut)]\n" + body2
        unchanged = "".join("        assert!(s.%s == before.%s, \"write through IndexMut changed another field\");\n" % (o, o) for o in others)
        src = """    #[kani::proof]
    fn index_is_the_fields_index() {
        let mut s = %(ctor)s;
        let before = s;
        let i: usize = kani::any();
        kani::assume(i < 3);
        assert!(ptr::eq(&s[i], <Inner as Index<usize>>::index(&s.%(f)s, i)), "Index result is not what the field's own Index returns");
        assert!(ptr::eq(&s[i], &s.%(f)s.other[i]));
        let nv: u8 = kani::any();
        s[i] = nv;
        assert!(s.%(f)s.other[i] == nv, "write through IndexMut is not visible in the field");
        assert!(s.%(f)s.items == before.%(f)s.items && s.%(f)s.tag == before.%(f)s.tag);
%(unchanged)s        kani::cover!(i == 2, "reach last index");
    }
""" % dict(ctor=ctor, f=f, unchanged=unchanged)
        hs = [Harness("index_is_the_fields_index", "all field contents, the index (0..3) and the written value symbolic", covers=1,
                      asserts="&s[i] is exactly what the selected field's own Index returns; s[i] = v lands there and nowhere else")]
        out.append(Shape("c14_index_%s" % tag, module(decl, src), hs, decl.replace("\n", " "),
                         exercises=["impl/src/index.rs::expand", "impl/src/index_mut.rs::expand"]))
    return out


def into_iter_shapes():
    out = []
    for tag, body, ctor, f, others in layouts("into_iterator"):
        body2 = body.replace("#[into_iterator]", "#[into_iterator(owned, ref, ref_mut)]")
        top = "" if "#[into_iterator(owned" in body2 else "#[into_iterator(owned, ref, ref_mut)]\n"
        decl = "#[derive(Clone, Copy, PartialEq, Debug, derive_more::IntoIterator)]\n" + top + body2
        src = """    #[kani::proof]
    #[kani::unwind(5)]
    fn three_forms_visit_the_fields_elements_in_order() {
        let mut s = %(ctor)s;
        let before = s;
        let mut k = 0usize;
        for r in &s {
            assert!(k < 3 && ptr::eq(r, &s.%(f)s.items[k]), "shared iteration: not the field's elements in order");
            k += 1;
        }
        assert!(k == 3);
        let want = [&s.%(f)s.items[0] as *const u8 as usize, &s.%(f)s.items[1] as *const u8 as usize, &s.%(f)s.items[2] as *const u8 as usize];
        k = 0;
        for m in &mut s {
            assert!(k < 3 && m as *mut u8 as usize == want[k], "mutable iteration: not the field's elements in order");
            k += 1;
        }
        assert!(k == 3);
        k = 0;
        for v in s {
            assert!(k < 3 && v == before.%(f)s.items[k], "owned iteration: not the field's elements in order");
            k += 1;
        }
        assert!(k == 3);
        kani::cover!(true, "reach end");
    }
""" % dict(ctor=ctor, f=f)
        hs = [Harness("three_forms_visit_the_fields_elements_in_order", "all field contents symbolic", covers=1, unwind=5,
                      asserts="owned, shared and mutable iteration all visit exactly the selected field's elements, in order (pointer-identical for the reference forms)")]
        out.append(Shape("c14_into_iterator_%s" % tag, module(decl, src), hs, decl.replace("\n", " "),
                         exercises=["impl/src/into_iterator.rs::expand"]))
    return out


def as_ref_shapes():
    out = []

    def mk(name, decl, body, asserts):
        src = "    #[kani::proof]\n    fn as_ref_targets() {\n%s        kani::cover!(true, \"reach end\");\n    }\n" % body
        hs = [Harness("as_ref_targets", "all field contents and written values symbolic", covers=1, asserts=asserts)]
        out.append(Shape("c14_as_ref_%s" % name, module(decl, src), hs, decl.replace("\n", " "),
                         exercises=["impl/src/as/mod.rs::expand", "src/as.rs (Conv specialisation)"]))

    D = "#[derive(Clone, Copy, PartialEq, Debug, derive_more::AsRef, derive_more::AsMut)]\n"
    mk("plain_tuple1", D + "pub struct S(pub Inner);", """        let mut s = S(any_inner());
        assert!(ptr::eq(AsRef::<Inner>::as_ref(&s), &s.0), "AsRef is not the field itself");
        let want = &s.0 as *const Inner as usize;
        let nv: u32 = kani::any();
        { let m: &mut Inner = s.as_mut(); assert!(m as *mut Inner as usize == want, "AsMut is not the field itself"); m.tag = nv; }
        assert!(s.0.tag == nv);
""", "single field, no attribute: as_ref()/as_mut() are the field itself (not the field's own AsRef<Inner>, which returns a decoy)")
    mk("plain_named1", D + "pub struct S { pub a: Inner }", """        let mut s = S { a: any_inner() };
        assert!(ptr::eq(AsRef::<Inner>::as_ref(&s), &s.a), "AsRef is not the field itself");
        let want = &s.a as *const Inner as usize;
        { let m: &mut Inner = s.as_mut(); assert!(m as *mut Inner as usize == want, "AsMut is not the field itself"); }
""", "single named field: as_ref()/as_mut() are the field itself")
    mk("forward", D + "#[as_ref(forward)]\n#[as_mut(forward)]\npub struct S(pub Inner);", """        let mut s = S(any_inner());
        assert!(ptr::eq(AsRef::<[u8; 3]>::as_ref(&s), &s.0.other), "forwarded AsRef<[u8;3]> is not what the field's impl returns");
        assert!(ptr::eq(AsRef::<u32>::as_ref(&s), &s.0.tag), "forwarded AsRef<u32> is not what the field's impl returns");
        assert!(ptr::eq(AsRef::<Inner>::as_ref(&s), &DECOY), "forward must call the field's own AsRef<Inner>");
        let want = &s.0.other as *const [u8; 3] as usize;
        let nv: u8 = kani::any();
        { let m: &mut [u8; 3] = s.as_mut(); assert!(m as *mut [u8; 3] as usize == want, "forwarded AsMut"); m[2] = nv; }
        assert!(s.0.other[2] == nv);
        let want = &s.0.tag as *const u32 as usize;
        { let m: &mut u32 = s.as_mut(); assert!(m as *mut u32 as usize == want); }
""", "forward: every AsRef<T>/AsMut<T> is exactly the field's own impl result")
    mk("types", D + "#[as_ref([u8; 3], Inner, u32)]\n#[as_mut([u8; 3], Inner, u32)]\npub struct S(pub Inner);", """        let mut s = S(any_inner());
        assert!(ptr::eq(AsRef::<Inner>::as_ref(&s), &s.0), "listed type equal to the field type must yield the field itself, not a forwarded call");
        assert!(ptr::eq(AsRef::<[u8; 3]>::as_ref(&s), &s.0.other), "listed other type must forward to the field's impl");
        assert!(ptr::eq(AsRef::<u32>::as_ref(&s), &s.0.tag));
        let want = &s.0 as *const Inner as usize;
        { let m: &mut Inner = s.as_mut(); assert!(m as *mut Inner as usize == want, "AsMut to the field's own type must be the field itself"); }
        let want = &s.0.other as *const [u8; 3] as usize;
        { let m: &mut [u8; 3] = s.as_mut(); assert!(m as *mut [u8; 3] as usize == want); }
""", "type list: the field's own type yields the field itself; other listed types forward to the field's impl")
    mk("types_alias", D + "#[as_ref(InnerAlias, u32)]\n#[as_mut(InnerAlias)]\npub struct S { pub a: Inner }", """        let mut s = S { a: any_inner() };
        assert!(ptr::eq(AsRef::<Inner>::as_ref(&s), &s.a), "a type alias of the field's (non-generic) type must yield the field itself");
        assert!(ptr::eq(AsRef::<u32>::as_ref(&s), &s.a.tag));
        let want = &s.a as *const Inner as usize;
        { let m: &mut Inner = s.as_mut(); assert!(m as *mut Inner as usize == want); }
""", "a listed type alias of the field's type yields the field itself")
    # a field that is a reference to the listed type: its type is `&Inner`, not `Inner`, so the listed type is reached through the field's own impl
    # (`&Inner: AsRef<Inner>` ends in Inner's decoy) - a direct `&self.0` would deref-coerce to the referent and look plausible
    mk("ref_field_listed_referent", "#[derive(Clone, Copy, derive_more::AsRef)]\n#[as_ref(Inner, u32)]\npub struct R<'a>(pub &'a Inner);\n"
       "#[derive(derive_more::AsRef, derive_more::AsMut)]\npub struct RM<'a> { #[as_ref(Inner)] #[as_mut(Inner)] pub a: &'a mut Inner, pub b: u8 }",
       """        let inner = any_inner();
        let r = R(&inner);
        assert!(ptr::eq(AsRef::<Inner>::as_ref(&r), &DECOY), "a `&Inner` field listed as `Inner` must go through the field's own AsRef<Inner>");
        assert!(ptr::eq(AsRef::<u32>::as_ref(&r), &inner.tag));
        let mut inner2 = any_inner();
        let mut rm = RM { a: &mut inner2, b: kani::any() };
        assert!(ptr::eq(AsRef::<Inner>::as_ref(&rm), &DECOY));
        let decoy_mut = unsafe { core::ptr::addr_of_mut!(DECOY_MUT) } as usize;
        { let m: &mut Inner = rm.as_mut(); assert!(m as *mut Inner as usize == decoy_mut, "a `&mut Inner` field listed as `Inner` must go through the field's own AsMut<Inner>"); }
""", "a reference-typed field with its referent type listed: forwarded to the field's own impl, not the referent itself")
    # a generic struct whose selected field does NOT mention the parameter: a listed type that does (forwarded) followed by an alias of the field's
    # own type (the field itself) - the decision is per listed type (seed C14-generics-flag-sticky-across-listed-types)
    mk("generic_struct_listed_generic_then_alias", "#[derive(derive_more::AsRef)]\npub struct Tg<T> { #[as_ref(Gen<T>, InnerAlias)] pub sym: Inner, pub tag: T }\n"
       "#[derive(derive_more::AsRef)]\npub struct Tr<T> { #[as_ref(InnerAlias, Gen<T>)] pub sym: Inner, pub tag: T }",
       """        let s = Tg { sym: any_inner(), tag: kani::any::<u8>() };
        assert!(ptr::eq(AsRef::<Gen<u8>>::as_ref(&s), &GEN), "a listed type mentioning T is forwarded to the field's impl");
        assert!(ptr::eq(AsRef::<Inner>::as_ref(&s), &s.sym), "an alias of the field's own type listed AFTER a generic type must still be the field itself");
        let r = Tr { sym: any_inner(), tag: kani::any::<u8>() };
        assert!(ptr::eq(AsRef::<Gen<u8>>::as_ref(&r), &GEN) && ptr::eq(AsRef::<Inner>::as_ref(&r), &r.sym));
""", "per listed type: forwarded if it mentions a generic parameter, the field itself if it is (an alias of) the field's type - in either order")
    mk("multi_field", D + "pub struct S { #[as_ref] #[as_mut] pub a: Inner, #[as_ref(u32)] #[as_mut(u32)] pub b: Inner, pub c: Side, #[as_ref(forward)] pub d: Side2 }\n"
       "#[derive(Clone, Copy, PartialEq, Debug)]\npub struct Side2(pub [u8; 2]);\nimpl AsRef<[u8; 2]> for Side2 { fn as_ref(&self) -> &[u8; 2] { &self.0 } }",
       """        let mut s = S { a: any_inner(), b: any_inner(), c: any_side(), d: Side2(kani::any()) };
        assert!(ptr::eq(AsRef::<Inner>::as_ref(&s), &s.a), "marked field a: the field itself");
        assert!(ptr::eq(AsRef::<u32>::as_ref(&s), &s.b.tag), "field b with a type: forwarded to b, not to a");
        assert!(ptr::eq(AsRef::<[u8; 2]>::as_ref(&s), &s.d.0), "field d forward");
        let want = &s.b.tag as *const u32 as usize;
        { let m: &mut u32 = s.as_mut(); assert!(m as *mut u32 as usize == want); }
        let want = &s.a as *const Inner as usize;
        { let m: &mut Inner = s.as_mut(); assert!(m as *mut Inner as usize == want); }
""", "several marked fields: each impl addresses exactly its own field")
    mk("skip", D + "pub struct S { #[as_ref(skip)] #[as_mut(skip)] pub a: Inner, #[as_ref(ignore)] #[as_mut(ignore)] pub b: u32, pub c: Side }",
       """        let mut s = S { a: any_inner(), b: kani::any(), c: any_side() };
        assert!(ptr::eq(AsRef::<Side>::as_ref(&s), &s.c), "with the others skipped, AsRef is the remaining field itself");
        let want = &s.c as *const Side as usize;
        { let m: &mut Side = s.as_mut(); assert!(m as *mut Side as usize == want); }
""", "skip/ignore: impls are generated for, and address, exactly the remaining field")
    mk("skip_tuple_before_kept_same_type", D + "pub struct S(#[as_ref(skip)] #[as_mut(skip)] pub Inner, pub Inner);\n" + D +
       "pub struct T3(pub Side, #[as_ref(ignore)] #[as_mut(ignore)] pub Inner, pub Inner);",
       """        let mut s = S(any_inner(), any_inner());
        assert!(ptr::eq(AsRef::<Inner>::as_ref(&s), &s.1), "a skipped field before the kept one: AsRef must be the kept field (position 1), not the skipped one");
        let want = &s.1 as *const Inner as usize;
        let nv: u32 = kani::any();
        { let m: &mut Inner = s.as_mut(); assert!(m as *mut Inner as usize == want, "AsMut must be the kept field"); m.tag = nv; }
        assert!(s.1.tag == nv, "write through as_mut() is not visible in the kept field");
        let mut t = T3(any_side(), any_inner(), any_inner());
        assert!(ptr::eq(AsRef::<Inner>::as_ref(&t), &t.2), "ignored field in the middle: AsRef<Inner> must be field 2");
        assert!(ptr::eq(AsRef::<Side>::as_ref(&t), &t.0));
        let want = &t.2 as *const Inner as usize;
        { let m: &mut Inner = t.as_mut(); assert!(m as *mut Inner as usize == want); }
""", "tuple structs selecting by exclusion with a skipped field BEFORE a kept field of the same type: the kept field's own storage")
    mk("generic", D + "pub struct G<T>(pub T);\n" + D + "#[as_ref(Inner)]\n#[as_mut(Inner)]\npub struct Fwd<T>(pub T);\n" + D + "#[as_ref(T)]\n#[as_mut(T)]\npub struct Same<T>(pub T);",
       """        let mut g = G(any_inner());
        assert!(ptr::eq(AsRef::<Inner>::as_ref(&g), &g.0), "generic field, no attribute: the field itself");
        let mut t = Same(any_inner());
        assert!(ptr::eq(AsRef::<Inner>::as_ref(&t), &t.0), "#[as_ref(T)] on a field of type T: the field itself");
        let want = &t.0 as *const Inner as usize;
        { let m: &mut Inner = t.as_mut(); assert!(m as *mut Inner as usize == want); }
        let mut f = Fwd(any_inner());
        assert!(ptr::eq(AsRef::<Inner>::as_ref(&f), <Inner as AsRef<Inner>>::as_ref(&f.0)), "#[as_ref(Inner)] on a generic field forwards to the field's impl (documented)");
        assert!(ptr::eq(AsRef::<Inner>::as_ref(&f), &DECOY));
""", "generic field types: string-equal type -> the field itself; a concrete listed type on a generic field -> forwarded call, as documented")
    return out


def shapes(tier):
    out = deref_shapes() + not_forward_shape() + reference_field_shape() + index_shapes() + into_iter_shapes() + as_ref_shapes()
    # the whole grid costs ~15 s: quick and thorough run all of it
    return out


DESCRIPTION = {
    "grid": "Deref/DerefMut, Index/IndexMut, IntoIterator(owned, ref, ref_mut) on 6 field layouts each (1 field; 2-3 fields with the "
            "selected field marked, or the others ignored; tuple and named), forwarded Deref/DerefMut on 2 layouts; AsRef/AsMut: single "
            "field, forward, type lists incl. the field's own type and a type alias of it, several marked fields, skip/ignore, generic "
            "field types",
    "symbolic": "all field contents ([u8;3] payloads, tags), the index, every value written through a mutable form",
    "oracle": "addresses: &s.field for the direct forms, the result of the field's own trait impl for forwarded forms (the inner type "
              "returns distinguishable sub-objects, and a decoy for AsRef<Self>)",
    "not_covered": ["field types whose own impls are not address-distinguishable are not needed: the harness chooses the inner type",
                    "structs outside the grid"],
}
