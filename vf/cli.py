import argparse
import importlib
import os
import sys

from . import common

K_PROPS = {"C04", "C02", "C05", "C06", "C07", "C08", "C09", "C10", "C11", "C12", "C13", "C14", "C17"}


def main():
    ap = argparse.ArgumentParser()
    ap.add_argument("prop")
    ap.add_argument("--tier", default=os.environ.get("VERIF_TIER", "quick"), choices=["quick", "thorough"])
    ap.add_argument("--replay")
    ap.add_argument("--only")
    a = ap.parse_args()
    prop = a.prop.upper()
    try:
        mod = importlib.import_module("vf.props." + prop.lower())
    except ImportError as e:
        print("no check for %s (%s)" % (prop, e), file=sys.stderr)
        sys.exit(common.EXIT_INCONCLUSIVE)
    if hasattr(mod, "main"):
        sys.exit(mod.main(a))
    from . import krun
    if a.replay:
        sys.exit(krun.replay_file(prop, a.replay))
    sys.exit(krun.run_property(prop, mod, a.tier, only=a.only))


if __name__ == "__main__":
    try:
        main()
    except SystemExit:
        raise
    except BaseException:
        # a crash of the machinery is never a verdict: exit 2 (inconclusive), not 1
        import traceback
        traceback.print_exc()
        sys.exit(common.EXIT_INCONCLUSIVE)
