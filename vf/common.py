"""Shared plumbing for the /verif checks: scratch directories, evidence files,
known findings, exit codes."""
import atexit
import json
import os
import shutil
import signal
import sys
import time

VERIF = os.path.dirname(os.path.dirname(os.path.abspath(__file__)))
REPO = os.environ.get("VERIF_REPO", "/repo")
SCRATCH_ROOT = os.environ.get("VERIF_SCRATCH", "/var/tmp/dm-verif")
EVIDENCE_DIR = os.environ.get("VERIF_EVIDENCE_DIR") or os.path.join(VERIF, "evidence")
REPLAY_DIR = os.environ.get("VERIF_REPLAY_DIR") or os.path.join(VERIF, "replay")
KNOWN_FINDINGS = os.path.join(VERIF, "known_findings.txt")

EXIT_OK = 0
EXIT_VIOLATION = 1
EXIT_INCONCLUSIVE = 2

NCPU = os.cpu_count() or 4


def log(*a):
    print(*a, file=sys.stderr, flush=True)


_scratch_dirs = []


def _cleanup():
    for d in _scratch_dirs:
        shutil.rmtree(d, ignore_errors=True)


def _on_signal(signum, frame):
    _cleanup()
    os._exit(128 + signum)


def scratch_dir(tag):
    """A fresh scratch directory outside /repo and /verif, removed at exit."""
    os.makedirs(SCRATCH_ROOT, exist_ok=True)
    d = os.path.join(SCRATCH_ROOT, "%s-%d" % (tag, os.getpid()))
    shutil.rmtree(d, ignore_errors=True)
    os.makedirs(d)
    if not _scratch_dirs:
        atexit.register(_cleanup)
        for s in (signal.SIGTERM, signal.SIGINT, signal.SIGHUP):
            signal.signal(s, _on_signal)
    if os.environ.get("VERIF_KEEP_SCRATCH") != "1":
        _scratch_dirs.append(d)
    return d


def seed():
    try:
        return int(os.environ.get("VERIF_SEED", "0"))
    except ValueError:
        return 0


def repo_head():
    import subprocess
    try:
        h = subprocess.run(["git", "-C", REPO, "rev-parse", "--short", "HEAD"],
                           capture_output=True, text=True).stdout.strip()
        dirty = subprocess.run(["git", "-C", REPO, "status", "--porcelain", "--untracked-files=no"],
                               capture_output=True, text=True).stdout.strip()
        return h + ("+dirty" if dirty else "")
    except Exception:
        return "unknown"


# ---------------------------------------------------------------------------------------------
# known findings


class KnownFindings:
    """`open: property=<id> key=<key> <text>` lines suppress (as KNOWN-FINDING) exactly the
    failures whose key matches; `fixed:` lines suppress nothing.  Never written at run time."""

    def __init__(self, path=KNOWN_FINDINGS):
        self.open = {}  # (prop, key) -> text
        self.fixed = []
        if not os.path.exists(path):
            return
        for line in open(path):
            line = line.strip()
            if not line or line.startswith("#"):
                continue
            if line.startswith("open:"):
                rest = line[5:].strip()
                parts = rest.split(None, 2)
                prop = parts[0].split("=", 1)[1]
                key = parts[1].split("=", 1)[1]
                text = parts[2] if len(parts) > 2 else ""
                self.open[(prop, key)] = text
            elif line.startswith("fixed:"):
                self.fixed.append(line)

    def match(self, prop, key):
        return self.open.get((prop, key))


# ---------------------------------------------------------------------------------------------
# evidence


def write_evidence(prop, tier, level, coverage, assumptions, wall_s, violations, extra=None):
    os.makedirs(EVIDENCE_DIR, exist_ok=True)
    ev = {
        "property_id": prop,
        "tier": tier,
        "seed": seed(),
        "level": level,
        "coverage": coverage,
        "assumptions": assumptions,
        "wall_s": round(wall_s, 2),
        "violations": violations,
        "repo_head": repo_head(),
        "written_at": time.strftime("%Y-%m-%dT%H:%M:%SZ", time.gmtime()),
    }
    if extra:
        ev.update(extra)
    path = os.path.join(EVIDENCE_DIR, prop + ".json")
    tmp = path + ".tmp"
    with open(tmp, "w") as f:
        json.dump(ev, f, indent=1, sort_keys=False)
        f.write("\n")
    os.replace(tmp, path)
    return path
