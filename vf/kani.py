"""Engine K: Kani/CBMC over the expansions of the working-tree macros.

generate crate -> build (the working-tree proc-macro expands every derive of the grid) -> verify every
#[kani::proof] harness -> classify -> replay counterexamples natively -> evidence."""
import json
import os
import re
import shutil
import subprocess
import time

from . import common
from .common import log

KANI_ENV = dict(os.environ, CARGO_NET_OFFLINE="true", CARGO_TERM_COLOR="never")
KANI_ENV.pop("RUSTUP_TOOLCHAIN", None)   # cargo-kani selects its own pinned toolchain
KANI_ENV.pop("RUSTFLAGS", None)

MEM_LIMIT_KB = int(os.environ.get("VERIF_CBMC_MEM_KB", str(12 * 1024 * 1024)))

CARGO_TOML = """[package]
name = "%(name)s"
version = "0.0.0"
edition = "2021"

[lib]
path = "src/lib.rs"
doctest = false

[dependencies]
derive_more = { path = "%(repo)s", features = ["full"] }

[workspace]

[lints.rust]
unexpected_cfgs = { level = "allow" }
"""


def run(cmd, cwd, timeout=None, env=None, mem_limit=True):
    """Run a command, return (exit code or 'timeout', combined output)."""
    shell = " ".join(cmd)
    if mem_limit:
        shell = "ulimit -v %d; exec %s" % (MEM_LIMIT_KB, shell)
    p = subprocess.Popen(["bash", "-c", shell], cwd=cwd, env=env or KANI_ENV, stdout=subprocess.PIPE,
                         stderr=subprocess.STDOUT, text=True, start_new_session=True)
    try:
        out, _ = p.communicate(timeout=timeout)
        return p.returncode, out
    except subprocess.TimeoutExpired:
        import signal
        try:
            os.killpg(p.pid, signal.SIGKILL)
        except ProcessLookupError:
            pass
        out, _ = p.communicate()
        return "timeout", out


class HarnessResult:
    def __init__(self, shape, harness, hid):
        self.shape = shape
        self.harness = harness
        self.id = hid                 # `<shape>::proofs::<harness>`
        self.status = "NOT-RUN"       # SUCCESSFUL | FAILED | TIMEOUT | OOM | INCONCLUSIVE | NOT-RUN
        self.failed_checks = []       # [(description, file, line)] of property-relevant failures
        self.inconclusive_reasons = []
        self.covers_satisfied = 0
        self.covers_unreachable = 0
        self.covers_total = 0
        self.checks_total = 0
        self.vccs = 0
        self.vccs_remaining = 0
        self.solver_s = 0.0
        self.symex_s = 0.0
        self.wall_ms = 0
        self.replay = None            # dict(confirmed=bool, path=..., detail=...)
        self.known = None


class CompileFailure:
    def __init__(self, shape, diagnostics):
        self.shape = shape
        self.diagnostics = diagnostics   # list of text blocks
        self.known = None
        self.path = None


INCONCLUSIVE_MARKERS = (
    "unwinding assertion", "is not currently supported by Kani", "unsupported", "recursion unwinding",
)


class KaniCheck:
    def __init__(self, prop, shapes, tier, support_src="", crate_attrs=(), kani_flags=(), harness_timeout=None,
                 jobs=None, extra_files=None):
        self.prop = prop
        self.shapes = list(shapes)
        self.tier = tier
        self.support_src = support_src
        self.crate_attrs = list(crate_attrs)
        self.kani_flags = list(kani_flags)
        self.harness_timeout = harness_timeout or (900 if tier == "quick" else 1800)
        self.jobs = jobs or common.NCPU
        self.extra_files = extra_files or {}
        self.dir = None
        self.compile_failures = []
        self.rejected_as_expected = []   # (shape, diagnostics) for expect_reject shapes
        self.accepted_unexpectedly = []  # expect_reject shapes that compiled
        self.results = []
        self.build_s = 0.0
        self.verify_s = 0.0
        self.inconclusive = []        # reasons at run level
        self.kani_version = ""
        self.build_rounds = 0

    # -------------------------------------------------------------------------------------
    def generate(self):
        self.dir = common.scratch_dir(self.prop)
        os.makedirs(os.path.join(self.dir, "src"))
        with open(os.path.join(self.dir, "Cargo.toml"), "w") as f:
            f.write(CARGO_TOML % dict(name=self.prop.lower(), repo=common.REPO))
        lock = os.path.join(common.REPO, "Cargo.lock")
        if os.path.exists(lock):
            shutil.copy(lock, os.path.join(self.dir, "Cargo.lock"))
        os.makedirs(os.path.join(self.dir, ".cargo"))
        with open(os.path.join(self.dir, ".cargo", "config.toml"), "w") as f:
            f.write("[net]\noffline = true\n")
        for rel, text in self.extra_files.items():
            p = os.path.join(self.dir, rel)
            os.makedirs(os.path.dirname(p), exist_ok=True)
            with open(p, "w") as f:
                f.write(text)
        self._write_sources()

    def _write_sources(self):
        src = os.path.join(self.dir, "src")
        for fn in os.listdir(src):
            os.unlink(os.path.join(src, fn))
        attrs = set(self.crate_attrs)
        for s in self.shapes:
            attrs.update(s.crate_attrs)
        lib = "".join(a + "\n" for a in sorted(attrs))
        lib += "#![allow(dead_code, unused, non_camel_case_types, non_snake_case)]\n"
        if self.support_src:
            lib += "pub mod support;\n"
            with open(os.path.join(src, "support.rs"), "w") as f:
                f.write(self.support_src)
        for s in self.shapes:
            lib += "pub mod %s;\n" % s.name
            with open(os.path.join(src, s.name + ".rs"), "w") as f:
                f.write(s.source)
        with open(os.path.join(src, "lib.rs"), "w") as f:
            f.write(lib)

    # -------------------------------------------------------------------------------------
    def build(self):
        """cargo kani --only-codegen; shapes whose expansion does not compile are recorded as compile
        failures (decided by rustc), removed, and the rest is rebuilt."""
        t0 = time.time()
        for rnd in range(6):
            self.build_rounds = rnd + 1
            code, out = run(["cargo", "kani", "--only-codegen", "--target-dir", "tgt"] + self._z_flags(),
                            cwd=self.dir, timeout=1800, mem_limit=False)
            with open(os.path.join(self.dir, "build-%d.log" % rnd), "w") as f:
                f.write(out)
            if code == 0:
                self.build_s = time.time() - t0
                for s in list(self.shapes):
                    if s.expect_reject:
                        self.accepted_unexpectedly.append(s)
                        self.shapes.remove(s)
                return True
            if code == "timeout":
                self.inconclusive.append("harness crate build timed out")
                break
            blocks = split_diagnostics(out)
            by_shape = {}
            unattributed = []
            names = {s.name for s in self.shapes}
            for b in blocks:
                m = re.search(r"-->\s+src/([A-Za-z0-9_]+)\.rs:(\d+):(\d+)", b)
                if m and m.group(1) in names:
                    by_shape.setdefault(m.group(1), []).append(b)
                else:
                    unattributed.append(b)
            if not by_shape:
                self.inconclusive.append("harness crate does not build and no diagnostic is attributable to a shape: "
                                         + (unattributed[0][:400] if unattributed else out[-400:]))
                break
            for s in list(self.shapes):
                if s.name in by_shape:
                    if s.expect_reject:
                        self.rejected_as_expected.append((s, by_shape[s.name]))
                    else:
                        self.compile_failures.append(CompileFailure(s, by_shape[s.name]))
                    self.shapes.remove(s)
            log("[%s] build round %d: %d shape(s) do not compile, rebuilding without them" % (
                self.prop, rnd + 1, len(by_shape)))
            if not self.shapes:
                break
            self._write_sources()
        self.build_s = time.time() - t0
        return False if self.inconclusive else bool(self.shapes)

    def _z_flags(self):
        return list(self.kani_flags)

    # -------------------------------------------------------------------------------------
    def verify(self):
        t0 = time.time()
        cmd = ["cargo", "kani", "--target-dir", "tgt", "-j", str(self.jobs), "--output-format", "terse",
               "-Z", "unstable-options", "--export-json", "out.json", "--harness-timeout", "%ds" % self.harness_timeout]
        cmd += self._z_flags()
        code, out = run(cmd, cwd=self.dir, timeout=self.harness_timeout * (2 + len(self._all_harnesses()) // self.jobs) + 600)
        with open(os.path.join(self.dir, "verify.log"), "w") as f:
            f.write(out)
        self.verify_s = time.time() - t0
        self.results = [HarnessResult(s, h, "%s::proofs::%s" % (s.name, h.name)) for s in self.shapes for h in s.harnesses]
        byid = {r.id: r for r in self.results}
        jpath = os.path.join(self.dir, "out.json")
        if code == "timeout":
            self.inconclusive.append("cargo kani run exceeded the global time limit")
        if not os.path.exists(jpath):
            self.inconclusive.append("cargo kani produced no result file (exit %s): %s" % (code, out[-600:]))
            return
        j = json.load(open(jpath))
        self.kani_version = "kani %s / cbmc %s" % (j.get("tools", {}).get("kani"), j.get("tools", {}).get("cbmc"))
        stats = {c["harness_id"]: (c.get("cbmc_stats") or {}) for c in j.get("cbmc", [])}
        errs = {e["harness_id"]: e for e in j.get("error_details", [])}
        for res in j.get("verification_results", {}).get("results", []):
            r = byid.get(res["harness_id"])
            if r is None:
                continue
            self._classify(r, res, stats.get(r.id, {}), errs.get(r.id, {}))
        # harnesses that never reported (timeout / killed) are looked up in the log
        for r in self.results:
            if r.status == "NOT-RUN":
                if re.search(r"%s.*(timed out|timeout)" % re.escape(r.id), out, re.I):
                    r.status = "TIMEOUT"
                else:
                    r.status = "INCONCLUSIVE"
                    r.inconclusive_reasons.append("no verdict reported by Kani")

    def _all_harnesses(self):
        return [h for s in self.shapes for h in s.harnesses]

    def _classify(self, r, res, st, err):
        st = st or {}
        r.wall_ms = res.get("duration_ms", 0)
        r.vccs = st.get("vccs_generated", 0)
        r.vccs_remaining = st.get("vccs_remaining", 0)
        r.solver_s = st.get("runtime_solver_s", 0.0) or 0.0
        r.symex_s = st.get("runtime_symex_s", 0.0) or 0.0
        checks = res.get("checks", [])
        r.checks_total = len(checks)
        failed = []
        for c in checks:
            cat, stt, desc = c.get("category", ""), c.get("status", ""), c.get("description", "")
            if cat == "cover":
                r.covers_total += 1
                if stt == "Satisfied":
                    r.covers_satisfied += 1
                elif stt in ("Unreachable", "Unsatisfiable"):
                    r.covers_unreachable += 1
                else:
                    r.inconclusive_reasons.append("cover `%s` is %s" % (desc, stt))
                continue
            if stt in ("Success", "Unreachable"):
                continue
            loc = c.get("location", {})
            low = (desc + " " + cat).lower()
            if stt == "Failure":
                if any(m in low for m in INCONCLUSIVE_MARKERS) or cat in ("unwind", "unsupported_construct") or "HARNESS:" in desc:
                    r.inconclusive_reasons.append("%s: %s" % (cat, desc))
                else:
                    failed.append((desc.strip('"'), loc.get("file", ""), loc.get("line", ""), cat))
            else:
                r.inconclusive_reasons.append("check `%s` is %s" % (desc, stt))
        h = r.harness
        status = res.get("status")
        exit_status = err.get("exit_status", "") if err else ""
        if status not in ("Success", "Failure"):
            r.inconclusive_reasons.append("harness status %s" % status)
        if exit_status in ("timeout", "timed_out"):
            r.status = "TIMEOUT"
            return
        if exit_status in ("out_of_memory", "oom"):
            r.status = "OOM"
            return
        if h.should_panic:
            # must-panic obligation: some panic is reachable AND the code after the call is unreachable
            if not failed and status == "Failure":
                # Kani reports Failure for should_panic harnesses that did not panic
                failed.append(("expected a panic on every path but none is reachable", "", "", "should_panic"))
            elif status == "Success":
                failed = []
        r.failed_checks = failed
        if r.covers_satisfied < h.covers:
            if not failed:
                r.inconclusive_reasons.append("vacuity: %d of %d reachability witnesses satisfied" % (
                    r.covers_satisfied, h.covers))
        if r.covers_unreachable < h.unreachable_covers:
            failed.append(("code after a call that must panic is reachable", "", "", "must_panic"))
            r.failed_checks = failed
        if failed:
            r.status = "FAILED"
        elif r.inconclusive_reasons:
            r.status = "INCONCLUSIVE"
        elif (status == "Success") or (h.should_panic and status == "Success"):
            r.status = "SUCCESSFUL"
        else:
            r.status = "INCONCLUSIVE"
            r.inconclusive_reasons.append("Kani status %s / %s without an attributable check" % (status, exit_status))

    # -------------------------------------------------------------------------------------
    def replay_batch(self, results):
        """Concrete playback for a batch of failed harnesses: Kani writes each counterexample as a unit test next to
        its harness (`--concrete-playback=inplace`), then the tests run natively, dev and release profile.
        Sets r.replay = dict(confirmed, detail, test_src) on every result."""
        if not results:
            return
        src_dir = os.path.join(self.dir, "src")
        files = {r.shape.name: os.path.join(src_dir, r.shape.name + ".rs") for r in results}
        orig = {n: open(p).read() for n, p in files.items()}
        cmd = ["cargo", "kani", "--target-dir", "tgt", "--exact", "--output-format", "terse",
               "-Z", "concrete-playback", "--concrete-playback=inplace"] + self._z_flags()
        for r in results:
            cmd += ["--harness", r.id]
        code, out = run(cmd, cwd=self.dir, timeout=self.harness_timeout * len(results) + 600)
        with open(os.path.join(self.dir, "playback-gen.log"), "w") as f:
            f.write(out)
        patched = {n: open(p).read() for n, p in files.items()}
        tests = {}     # shape -> {harness fn: [(test fn name, check category, check description)]}
        blocks_of = {}
        for n in files:
            blocks = parse_playback_blocks(patched[n])
            seen, keep = {}, []
            # Kani emits one test per failed check / satisfied cover and repeats a test when two of them share the
            # same concrete values: keep one per name, preferring the failed check over the cover.
            for b in sorted(blocks, key=lambda b: b["category"] == "cover"):
                if b["name"] in seen:
                    continue
                seen[b["name"]] = b
                keep.append(b)
            # a failed harness WITHOUT symbolic input gets no playback test from Kani (there are no values to write down): its native replay is
            # the harness itself, run under the playback runtime with an empty value list
            for r in results:
                if r.shape.name == n and not r.harness.should_panic and r.harness.symbolic.lower().startswith("none") \
                        and not any(b["harness"].rsplit("::", 1)[-1] == r.harness.name for b in keep):
                    tn = "kani_concrete_playback_%s_concrete" % r.harness.name
                    keep.append(dict(harness="%s::proofs::%s" % (n, r.harness.name), category="assertion",
                                     descr="harness without symbolic input: replayed as it is", name=tn,
                                     text="    #[test]\n    fn %s() {\n        let concrete_vals: Vec<Vec<u8>> = vec![];\n"
                                          "        kani::concrete_playback_run(concrete_vals, %s);\n    }\n" % (tn, r.harness.name)))
            blocks_of[n] = keep
            for b in keep:
                hfn = b["harness"].rsplit("::", 1)[-1]
                tests.setdefault(n, {}).setdefault(hfn, []).append((b["name"], b["category"], b["descr"]))
            body = orig[n].rstrip()
            body = body[:-1] + "\n" + "\n".join(b["text"] for b in keep) + "\n}\n"
            patched[n] = body
            with open(files[n], "w") as f:
                f.write(body)
        verdicts = {}
        logs = {}
        try:
            for profile in ("dev", "release"):
                pcmd = ["cargo", "kani", "playback", "-Z", "concrete-playback", "--", "kani_concrete_playback"]
                env = dict(KANI_ENV)
                if profile == "release":
                    # `cargo kani playback` has no --release: give the test profile release settings instead
                    for prof in ("DEV", "TEST"):
                        env["CARGO_PROFILE_%s_OPT_LEVEL" % prof] = "3"
                        env["CARGO_PROFILE_%s_DEBUG_ASSERTIONS" % prof] = "false"
                        env["CARGO_PROFILE_%s_OVERFLOW_CHECKS" % prof] = "false"
                code, pout = run(pcmd, cwd=self.dir, timeout=1800, mem_limit=False, env=env)
                logs[profile] = pout
                with open(os.path.join(self.dir, "playback-%s.log" % profile), "w") as f:
                    f.write(pout)
                for name, v in re.findall(r"^test (\S+) \.\.\. (\w+)", pout, re.M):
                    verdicts[(profile, name)] = v
        finally:
            for n, p in files.items():
                with open(p, "w") as f:
                    f.write(orig[n])
        for r in results:
            mine = tests.get(r.shape.name, {}).get(r.harness.name, [])
            new_src = "\n".join(b["text"] for b in blocks_of.get(r.shape.name, [])
                                if b["harness"].rsplit("::", 1)[-1] == r.harness.name)
            detail, confirmed = {}, bool(mine)
            for profile in ("dev", "release"):
                failed = passed = 0
                for t, cat, descr in mine:
                    v = verdicts.get((profile, "%s::proofs::%s" % (r.shape.name, t)))
                    if r.harness.should_panic:
                        # must-panic obligation: the witness placed after the call was reached in the solver;
                        # natively the run must get there too, i.e. the replayed test does not panic
                        if cat == "cover" and "must-panic" in descr:
                            passed += v == "ok"
                            failed += v == "FAILED"
                    elif cat != "cover":
                        failed += v == "FAILED"
                        passed += v == "ok"
                detail[profile] = dict(tests=failed + passed, panicked=failed, returned=passed,
                                       panic=first_panic(logs.get(profile, ""), r.shape.name))
                if r.harness.should_panic:
                    if not passed:
                        confirmed = False
                elif not failed:
                    confirmed = False
            if not mine:
                detail["note"] = "Kani emitted no concrete playback test for this harness"
            r.replay = dict(confirmed=confirmed, detail=detail, test_src=new_src)


PLAYBACK_BLOCK = re.compile(
    r"^[ \t]*/// Test generated for harness `([^`]+)`[ \t]*\n[ \t]*///[ \t]*\n[ \t]*/// Check for `(\w+)`: ([^\n]*)\n"
    r"(?:[ \t]*///[^\n]*\n|[ \t]*\n)*[ \t]*#\[test\][ \t]*\n[ \t]*fn (\w+)\(\s*\)\s*\{.*?kani::concrete_playback_run\(.*?\);\s*\}[ \t]*\n",
    re.S | re.M)


def parse_playback_blocks(src):
    out = []
    for m in PLAYBACK_BLOCK.finditer(src):
        out.append(dict(harness=m.group(1), category=m.group(2), descr=m.group(3).strip().strip('"'),
                        name=m.group(4), text=m.group(0)))
    return out


def added_text(old, new):
    import difflib
    out = []
    for l in difflib.ndiff(old.splitlines(), new.splitlines()):
        if l.startswith("+ "):
            out.append(l[2:])
    return "\n".join(out)


def first_panic(out, shape_name):
    m = re.search(r"panicked at src/%s\.rs:\d+:\d+:\n(.*)" % re.escape(shape_name), out)
    return m.group(1).strip() if m else None


def indent(s, pre):
    return "\n".join(pre + l if l.strip() else l for l in s.splitlines())


def split_diagnostics(out):
    """Split rustc's human-readable output into `error...` blocks."""
    blocks, cur = [], None
    for line in out.splitlines():
        if re.match(r"^error(\[E\d+\])?:", line):
            if cur:
                blocks.append("\n".join(cur))
            cur = [line]
        elif re.match(r"^(warning|note|help)(\[|:)", line) or line.startswith("Some errors have"):
            if cur:
                blocks.append("\n".join(cur))
            cur = None
        elif cur is not None:
            cur.append(line)
    if cur:
        blocks.append("\n".join(cur))
    return [b for b in blocks if "could not compile" not in b and "Failed to execute cargo" not in b
            and "aborting due to" not in b]
