#!/usr/bin/env python3-vt
"""llsym prototype: path-forking symbolic executor for a subset of LLVM IR (rustc -O output), z3 back end."""
import re, sys, time, bisect, collections
import z3

# ----------------------------------------------------------------------------- tokenizer
TOK = re.compile(r'''
    \s+ |
    (?P<str>c"(?:[^"\\]|\\[0-9A-Fa-f]{2}|\\\\)*") |
    (?P<local>%"(?:[^"\\]|\\.)*"|%[-\w.$]+) |
    (?P<glob>@"(?:[^"\\]|\\.)*"|@[-\w.$]+) |
    (?P<meta>![-\w.]+|!\{[^}]*\}|!"[^"]*") |
    (?P<attrgrp>\#\d+) |
    (?P<num>-?\d+(?:\.\d+(?:e[+-]?\d+)?)?|0x[0-9A-Fa-f]+) |
    (?P<word>[A-Za-z_][\w.]*) |
    (?P<punct><\{|\}>|\.\.\.|[,()\[\]{}<>=*:])
''', re.X)

def tokenize(line):
    out = []
    pos = 0
    n = len(line)
    while pos < n:
        if line[pos] == ';':
            break
        m = TOK.match(line, pos)
        if not m:
            raise SyntaxError('cannot tokenize at %d: %r' % (pos, line[pos:pos + 40]))
        pos = m.end()
        k = m.lastgroup
        if k is None:
            continue
        out.append((k, m.group(k)))
    return out

class Toks:
    def __init__(self, toks, line=''):
        self.t = toks; self.i = 0; self.line = line
    def peek(self, k=0):
        j = self.i + k
        return self.t[j] if j < len(self.t) else (None, None)
    def next(self):
        x = self.t[self.i]; self.i += 1; return x
    def accept(self, val):
        if self.i < len(self.t) and self.t[self.i][1] == val:
            self.i += 1; return True
        return False
    def expect(self, val):
        if not self.accept(val):
            raise SyntaxError('expected %r at %r in %s' % (val, self.t[self.i:self.i + 5], self.line[:200]))
    def eof(self):
        return self.i >= len(self.t)

# ----------------------------------------------------------------------------- types
class Ty:
    pass
class IntTy(Ty):
    def __init__(s, bits): s.bits = bits
    def __repr__(s): return 'i%d' % s.bits
class PtrTy(Ty):
    bits = 64
    def __repr__(s): return 'ptr'
class VoidTy(Ty):
    def __repr__(s): return 'void'
class ArrTy(Ty):
    def __init__(s, n, el): s.n = n; s.el = el
    def __repr__(s): return '[%d x %r]' % (s.n, s.el)
class StructTy(Ty):
    def __init__(s, els, packed): s.els = els; s.packed = packed
    def __repr__(s): return ('<{%s}>' if s.packed else '{%s}') % ', '.join(map(repr, s.els))
class OtherTy(Ty):
    def __init__(s, name): s.name = name
    def __repr__(s): return s.name
PTR = PtrTy(); VOID = VoidTy()

def parse_type(tk):
    k, v = tk.next()
    if k == 'word':
        if v[0] == 'i' and v[1:].isdigit():
            ty = IntTy(int(v[1:]))
        elif v == 'ptr':
            ty = PTR
            if tk.peek()[1] == 'addrspace':
                tk.next(); tk.expect('('); tk.next(); tk.expect(')')
        elif v == 'void':
            ty = VOID
        elif v in ('label', 'metadata', 'float', 'double', 'half', 'token'):
            ty = OtherTy(v)
        else:
            raise SyntaxError('type? %r in %s' % (v, tk.line[:200]))
    elif v == '[':
        n = int(tk.next()[1]); tk.expect('x'); el = parse_type(tk); tk.expect(']')
        ty = ArrTy(n, el)
    elif v == '{' or v == '<{':
        els = []
        close = '}' if v == '{' else '}>'
        if not tk.accept(close):
            while True:
                els.append(parse_type(tk))
                if tk.accept(close): break
                tk.expect(',')
        ty = StructTy(els, v == '<{')
    elif v == '<':
        n = int(tk.next()[1]); tk.expect('x'); el = parse_type(tk); tk.expect('>')
        raise SyntaxError('vector type unsupported')
    elif k == 'local':  # named type
        ty = named_type(v)
    else:
        raise SyntaxError('type? %r in %s' % (v, tk.line[:200]))
    # function type suffix e.g. "void (ptr, i64)"
    return ty

NAMED_SRC = {}
NAMED = {}
def named_type(name):
    if name not in NAMED:
        line = NAMED_SRC[name]
        tk = Toks(tokenize(line), line)
        tk.next(); tk.expect('='); tk.expect('type')
        NAMED[name] = parse_type(tk)
    return NAMED[name]

def align_of(ty):
    if isinstance(ty, IntTy):
        b = (ty.bits + 7) // 8
        a = 1
        while a < b and a < 16: a *= 2
        return min(a, 16) if ty.bits <= 64 else 16
    if isinstance(ty, PtrTy): return 8
    if isinstance(ty, ArrTy): return align_of(ty.el)
    if isinstance(ty, StructTy):
        if ty.packed or not ty.els: return 1
        return max(align_of(e) for e in ty.els)
    raise NotImplementedError(ty)

def size_of(ty):
    if isinstance(ty, IntTy):
        b = (ty.bits + 7) // 8
        a = align_of(ty)
        return (b + a - 1) // a * a
    if isinstance(ty, PtrTy): return 8
    if isinstance(ty, ArrTy): return ty.n * size_of(ty.el)
    if isinstance(ty, StructTy):
        return struct_layout(ty)[1]
    raise NotImplementedError(ty)

def struct_layout(ty):
    off = 0; offs = []
    for e in ty.els:
        if not ty.packed:
            a = align_of(e); off = (off + a - 1) // a * a
        offs.append(off); off += size_of(e)
    if not ty.packed and ty.els:
        a = align_of(ty); off = (off + a - 1) // a * a
    return offs, off

# ----------------------------------------------------------------------------- operands (unevaluated)
# ('local', name) ('glob', name) ('int', v) ('null',) ('undef',) ('zero',) ('agg', [(ty, op)...]) ('bytes', b'..')
# ('cgep', basety, ptrop, [(ty,op)...]) ('cast', op)
PARAM_ATTR_WORDS_WITH_PAREN = {'align', 'dereferenceable', 'dereferenceable_or_null', 'captures', 'range', 'sret', 'byval',
                               'byref', 'inalloca', 'preallocated', 'elementtype', 'initializes', 'nofpclass', 'memory', 'allockind', 'allocsize'}

def skip_attrs(tk):
    """skip parameter/return attributes until a value token"""
    while True:
        k, v = tk.peek()
        if k == 'word' and v not in ('null', 'undef', 'poison', 'true', 'false', 'zeroinitializer', 'getelementptr', 'ptrtoint', 'inttoptr', 'bitcast', 'c',
                                     'trunc', 'zext', 'sext', 'sub', 'add', 'mul', 'and', 'or', 'xor', 'shl', 'lshr'):
            tk.next()
            if tk.peek()[1] == '(':
                depth = 0
                while True:
                    _, x = tk.next()
                    if x == '(': depth += 1
                    elif x == ')':
                        depth -= 1
                        if depth == 0: break
            elif v == 'align' and tk.peek()[0] == 'num':
                tk.next()
            continue
        if k == 'attrgrp':
            tk.next(); continue
        return

def parse_operand(tk, ty):
    k, v = tk.peek()
    if k == 'local': tk.next(); return ('local', v)
    if k == 'glob': tk.next(); return ('glob', v)
    if k == 'num': tk.next(); return ('int', int(v, 0) if not v.startswith('-') else int(v))
    if k == 'str':
        tk.next(); return ('bytes', cstr(v))
    if k == 'word':
        if v == 'true': tk.next(); return ('int', 1)
        if v == 'false': tk.next(); return ('int', 0)
        if v == 'null': tk.next(); return ('int', 0)
        if v in ('undef', 'poison'): tk.next(); return ('undef',)
        if v == 'zeroinitializer': tk.next(); return ('zero',)
        if v == 'getelementptr':
            tk.next()
            while tk.peek()[1] in ('inbounds', 'nuw', 'nusw', 'inrange'): tk.next()
            tk.expect('(')
            bty = parse_type(tk); tk.expect(',')
            pty = parse_type(tk); p = parse_operand(tk, pty)
            idx = []
            while tk.accept(','):
                ity = parse_type(tk); idx.append((ity, parse_operand(tk, ity)))
            tk.expect(')')
            return ('cgep', bty, p, idx)
        if v in ('ptrtoint', 'inttoptr', 'bitcast'):
            tk.next(); tk.expect('(')
            sty = parse_type(tk); o = parse_operand(tk, sty); tk.expect('to'); parse_type(tk); tk.expect(')')
            return o
        if v in ('trunc', 'zext', 'sext'):
            tk.next(); tk.expect('(')
            sty = parse_type(tk); o = parse_operand(tk, sty); tk.expect('to'); dty = parse_type(tk); tk.expect(')')
            return ('ccast', v, sty, dty, o)
        if v in ('sub', 'add', 'mul', 'and', 'or', 'xor', 'shl', 'lshr'):
            tk.next()
            while tk.peek()[1] in ('nuw', 'nsw', 'exact', 'disjoint'): tk.next()
            tk.expect('(')
            aty = parse_type(tk); a = parse_operand(tk, aty); tk.expect(','); bty = parse_type(tk); b = parse_operand(tk, bty); tk.expect(')')
            return ('cbin', v, aty, a, b)
    if v in ('{', '<{', '['):
        close = {'{': '}', '<{': '}>', '[': ']'}[v]
        tk.next()
        els = []
        if not tk.accept(close):
            while True:
                ety = parse_type(tk); els.append((ety, parse_operand(tk, ety)))
                if tk.accept(close): break
                tk.expect(',')
        return ('agg', els)
    raise SyntaxError('operand? %r %r in %s' % (k, v, tk.line[:300]))

def cstr(tokv):
    s = tokv[2:-1]
    out = bytearray(); i = 0
    while i < len(s):
        if s[i] == '\\':
            if s[i + 1] == '\\': out.append(92); i += 2
            else: out.append(int(s[i + 1:i + 3], 16)); i += 3
        else:
            out.append(ord(s[i])); i += 1
    return bytes(out)

# ----------------------------------------------------------------------------- module
class Func:
    def __init__(s, name, retty, params, lines):
        s.name = name; s.retty = retty; s.params = params; s.lines = lines; s.blocks = None
    def parse(s):
        if s.blocks is not None: return
        s.blocks = {}; s.order = []
        cur = None; label = None
        pending = None
        pending_invoke = None
        for raw in s.lines:
            line = raw.strip()
            if not line or line.startswith(';') or line.startswith('#dbg'): continue
            if pending is not None:
                pending += ' ' + line
                if line.startswith(']'):
                    cur.append(parse_instr(pending)); pending = None
                continue
            m = re.match(r'^("(?:[^"\\]|\\.)*"|[-\w.$]+):', line)
            if m and not line.startswith('%'):
                label = m.group(1); cur = []; s.blocks['%' + label] = cur; s.order.append('%' + label); continue
            if cur is None:
                # the unlabelled entry block takes the next unnamed-value number after the unnamed parameters
                k = sum(1 for (_, pn) in s.params if pn is None or re.match(r'^%\d+$', pn))
                label = str(k); cur = []; s.blocks['%' + label] = cur; s.order.append('%' + label)
            if re.search(r'\bswitch\b', line) and line.endswith('['):
                pending = line; continue
            if pending_invoke is not None:
                # `invoke f(..) to label %normal unwind label %pad`: panics abort in these builds (a panic entry point ends the path), so an
                # invoke is a call followed by a branch to its normal destination; the landing pad is never entered
                m2 = re.match(r'^to label (%("(?:[^"\\]|\\.)*"|[-\w.$]+)) unwind label', line)
                if not m2: raise ValueError('malformed invoke continuation: ' + line[:120])
                cur.append(parse_instr(pending_invoke)); cur.append(('br', m2.group(1))); pending_invoke = None
                continue
            if re.match(r'^(%\S+ = )?invoke\b', line):
                pending_invoke = re.sub(r'^((?:%\S+ = )?)invoke\b', r'\1call', line); continue
            cur.append(parse_instr(line))
        s.entry = s.order[0]

class Module:
    def __init__(s, path):
        # one module at a time per process: global names, named types and the global address space belong to the module being
        # loaded (a second wrapper loaded in the same process must not resolve `@alloc_...` constants to the first one's objects)
        global GLOBALS
        GLOBALS = GlobalSpace()
        GADDR.clear(); FADDR.clear(); NAMED_SRC.clear(); NAMED.clear()
        s.funcs = {}; s.globals = {}; s.decls = set()
        txt = open(path).read().split('\n')
        i = 0; n = len(txt)
        while i < n:
            line = txt[i]
            if line.startswith('define '):
                j = i + 1
                while txt[j] != '}': j += 1
                s._add_func(line, txt[i + 1:j]); i = j + 1; continue
            if line.startswith('declare '):
                m = re.search(r'@("(?:[^"\\]|\\.)*"|[-\w.$]+)\(', line)
                if m: s.decls.add('@' + m.group(1))
            elif line.startswith('@'):
                m = re.match(r'^(@"(?:[^"\\]|\\.)*"|@[-\w.$]+) = ', line)
                if m: s.globals[m.group(1)] = line
            elif line.startswith('%') and ' = type ' in line:
                m = re.match(r'^(%"(?:[^"\\]|\\.)*"|%[-\w.$]+) = type ', line)
                if m: NAMED_SRC[m.group(1)] = line
            i += 1
    def _add_func(s, header, lines):
        tk = Toks(tokenize(header), header)
        tk.expect('define')
        # skip linkage etc. until we can parse a type followed by @name
        while True:
            k, v = tk.peek()
            if k == 'word' and (v in ('void', 'ptr') or re.match(r'^i\d+$', v)): break
            if v in ('{', '[', '<{'): break
            tk.next()
            if tk.peek()[1] == '(' and v in ('range', 'align', 'dereferenceable', 'dereferenceable_or_null'):
                depth = 0
                while True:
                    _, x = tk.next()
                    if x == '(': depth += 1
                    elif x == ')':
                        depth -= 1
                        if depth == 0: break
        retty = parse_type(tk)
        k, name = tk.next(); assert k == 'glob', header[:200]
        tk.expect('(')
        params = []
        if not tk.accept(')'):
            while True:
                if tk.accept('...'):
                    tk.expect(')'); break
                pty = parse_type(tk); skip_attrs(tk)
                k, v = tk.peek()
                pname = None
                if k == 'local': tk.next(); pname = v
                params.append((pty, pname))
                if tk.accept(')'): break
                tk.expect(',')
        s.funcs[name] = Func(name, retty, params, lines)

# ----------------------------------------------------------------------------- instruction parsing
BINOPS = {'add', 'sub', 'mul', 'and', 'or', 'xor', 'shl', 'lshr', 'ashr', 'udiv', 'urem', 'sdiv', 'srem'}
CASTS = {'zext', 'sext', 'trunc', 'ptrtoint', 'inttoptr', 'bitcast', 'addrspacecast'}

def parse_instr(line):
    # metadata attachments (`, !dbg !12`, `, !noalias !7`, ...) always trail the instruction
    i = line.find(', !')
    if i >= 0: line = line[:i]
    tk = Toks(tokenize(line), line)
    dest = None
    if tk.peek()[0] == 'local' and tk.peek(1)[1] == '=':
        dest = tk.next()[1]; tk.next()
    k, op = tk.next()
    while op in ('tail', 'musttail', 'notail'):
        k, op = tk.next()
    if op in BINOPS:
        while tk.peek()[1] in ('nuw', 'nsw', 'exact', 'disjoint'): tk.next()
        ty = parse_type(tk); a = parse_operand(tk, ty); tk.expect(','); b = parse_operand(tk, ty)
        return ('bin', dest, op, ty, a, b)
    if op == 'icmp':
        if tk.peek()[1] == 'samesign': tk.next()
        pred = tk.next()[1]; ty = parse_type(tk); a = parse_operand(tk, ty); tk.expect(','); b = parse_operand(tk, ty)
        return ('icmp', dest, pred, ty, a, b)
    if op in CASTS:
        while tk.peek()[1] in ('nneg', 'nuw', 'nsw'): tk.next()
        sty = parse_type(tk); a = parse_operand(tk, sty); tk.expect('to'); dty = parse_type(tk)
        return ('cast', dest, op, sty, a, dty)
    if op == 'load':
        if tk.peek()[1] in ('volatile', 'atomic'): tk.next()
        ty = parse_type(tk); tk.expect(','); pty = parse_type(tk); p = parse_operand(tk, pty)
        return ('load', dest, ty, p)
    if op == 'store':
        if tk.peek()[1] in ('volatile', 'atomic'): tk.next()
        ty = parse_type(tk); v = parse_operand(tk, ty); tk.expect(','); pty = parse_type(tk); p = parse_operand(tk, pty)
        return ('store', ty, v, p)
    if op == 'alloca':
        ty = parse_type(tk)
        cnt = ('int', 1)
        al = 1
        while tk.accept(','):
            if tk.peek()[1] == 'align': tk.next(); al = int(tk.next()[1])
            else:
                cty = parse_type(tk); cnt = parse_operand(tk, cty)
        return ('alloca', dest, ty, cnt, al)
    if op == 'getelementptr':
        while tk.peek()[1] in ('inbounds', 'nuw', 'nusw'): tk.next()
        bty = parse_type(tk); tk.expect(','); pty = parse_type(tk); p = parse_operand(tk, pty)
        idx = []
        while tk.accept(','):
            ity = parse_type(tk); idx.append((ity, parse_operand(tk, ity)))
        return ('gep', dest, bty, p, idx)
    if op == 'br':
        if tk.peek()[1] == 'label':
            tk.next(); return ('br', tk.next()[1])
        ty = parse_type(tk); c = parse_operand(tk, ty); tk.expect(','); tk.expect('label'); t = tk.next()[1]
        tk.expect(','); tk.expect('label'); f = tk.next()[1]
        return ('condbr', c, t, f)
    if op == 'switch':
        ty = parse_type(tk); v = parse_operand(tk, ty); tk.expect(','); tk.expect('label'); dflt = tk.next()[1]
        tk.expect('[')
        cases = []
        while not tk.accept(']'):
            cty = parse_type(tk); cv = parse_operand(tk, cty); tk.expect(','); tk.expect('label'); cases.append((cv[1], tk.next()[1]))
        return ('switch', ty, v, dflt, cases)
    if op == 'phi':
        ty = parse_type(tk); inc = []
        while True:
            tk.expect('['); v = parse_operand(tk, ty); tk.expect(','); lab = tk.next()[1]; tk.expect(']')
            inc.append((v, lab))
            if not tk.accept(','): break
        return ('phi', dest, ty, inc)
    if op == 'select':
        cty = parse_type(tk); c = parse_operand(tk, cty); tk.expect(',')
        ty = parse_type(tk); a = parse_operand(tk, ty); tk.expect(','); ty2 = parse_type(tk); b = parse_operand(tk, ty2)
        return ('select', dest, ty, c, a, b)
    if op == 'call':
        # [fast-math] [cconv] [ret attrs] ty [fnty] fnptr(args)
        while True:
            k, v = tk.peek()
            if k == 'word' and (v in ('void', 'ptr') or re.match(r'^i\d+$', v)): break
            if v in ('{', '[', '<{'): break
            tk.next()
            if tk.peek()[1] == '(':
                depth = 0
                while True:
                    _, x = tk.next()
                    if x == '(': depth += 1
                    elif x == ')':
                        depth -= 1
                        if depth == 0: break
            elif v == 'align' and tk.peek()[0] == 'num': tk.next()
        rty = parse_type(tk)
        if tk.peek()[1] == '(':  # function type
            depth = 0
            while True:
                _, x = tk.next()
                if x == '(': depth += 1
                elif x == ')':
                    depth -= 1
                    if depth == 0: break
        k, fn = tk.next()
        callee = ('glob', fn) if k == 'glob' else ('local', fn)
        tk.expect('(')
        args = []
        if not tk.accept(')'):
            while True:
                aty = parse_type(tk)
                if isinstance(aty, OtherTy) and aty.name == 'metadata':
                    tk.next(); args.append((aty, ('undef',)))
                else:
                    skip_attrs(tk); args.append((aty, parse_operand(tk, aty)))
                if tk.accept(')'): break
                tk.expect(',')
        return ('call', dest, rty, callee, args)
    if op == 'ret':
        ty = parse_type(tk)
        if isinstance(ty, VoidTy): return ('ret', ty, None)
        return ('ret', ty, parse_operand(tk, ty))
    if op == 'unreachable': return ('unreachable',)
    if op == 'extractvalue':
        ty = parse_type(tk); a = parse_operand(tk, ty); idx = []
        while tk.accept(','): idx.append(int(tk.next()[1]))
        return ('extractvalue', dest, ty, a, idx)
    if op == 'insertvalue':
        ty = parse_type(tk); a = parse_operand(tk, ty); tk.expect(','); ety = parse_type(tk); e = parse_operand(tk, ety); idx = []
        while tk.accept(','): idx.append(int(tk.next()[1]))
        return ('insertvalue', dest, ty, a, ety, e, idx)
    if op == 'freeze':
        ty = parse_type(tk); a = parse_operand(tk, ty)
        return ('freeze', dest, ty, a)
    return ('unsupported', op, line)

# ----------------------------------------------------------------------------- values
def mask(w): return (1 << w) - 1
def is_sym(x): return isinstance(x, z3.ExprRef)
def to_bv(x, w): return x if is_sym(x) else z3.BitVecVal(x & mask(w), w)
def sgn(x, w): return x - (1 << w) if x >> (w - 1) else x

class Undef:
    def __repr__(self): return 'undef'
UNDEF = Undef()

def simp(e):
    e = z3.simplify(e)
    if z3.is_bv_value(e): return e.as_long()
    return e

def binop(op, a, b, w):
    if isinstance(a, Undef) or isinstance(b, Undef):
        # SROA's bit-insert idiom `(undef & ~mask) | field` carries padding bits as `undef` through registers: `undef` (not poison) may be
        # any value, 0 is one of them, and the padding is never observed.  Only for and / or / zext-free shifts; other arithmetic stays undef.
        if op in ('and', 'or', 'shl', 'lshr') and not (isinstance(a, Undef) and isinstance(b, Undef)):
            if isinstance(a, Undef): a = 0
            else: b = 0
        else:
            return UNDEF
    if not is_sym(a) and not is_sym(b):
        m = mask(w)
        if op == 'add': return (a + b) & m
        if op == 'sub': return (a - b) & m
        if op == 'mul': return (a * b) & m
        if op == 'and': return a & b
        if op == 'or': return a | b
        if op == 'xor': return a ^ b
        if op == 'shl': return (a << b) & m if b < w else 0
        if op == 'lshr': return a >> b if b < w else 0
        if op == 'ashr': return (sgn(a, w) >> min(b, w - 1)) & m
        if op == 'udiv': return a // b
        if op == 'urem': return a % b
        if op == 'sdiv': return int(sgn(a, w) / sgn(b, w)) & m
        if op == 'srem':
            x, y = sgn(a, w), sgn(b, w); return (x - int(x / y) * y) & m
    # cheap algebraic shortcuts
    if op == 'and' and ((not is_sym(a) and a == 0) or (not is_sym(b) and b == 0)): return 0
    if op in ('add', 'or', 'xor', 'sub', 'shl', 'lshr') and not is_sym(b) and b == 0: return a
    if op in ('add', 'or', 'xor') and not is_sym(a) and a == 0: return b
    A, B = to_bv(a, w), to_bv(b, w)
    r = {'add': lambda: A + B, 'sub': lambda: A - B, 'mul': lambda: A * B, 'and': lambda: A & B, 'or': lambda: A | B,
         'xor': lambda: A ^ B, 'shl': lambda: A << B, 'lshr': lambda: z3.LShR(A, B), 'ashr': lambda: A >> B,
         'udiv': lambda: z3.UDiv(A, B), 'urem': lambda: z3.URem(A, B), 'sdiv': lambda: A / B, 'srem': lambda: z3.SRem(A, B)}[op]()
    return simp(r)

def icmp(pred, a, b, w):
    if isinstance(a, Undef) or isinstance(b, Undef): return UNDEF
    if not is_sym(a) and not is_sym(b):
        if pred in ('slt', 'sle', 'sgt', 'sge'): a, b = sgn(a, w), sgn(b, w)
        return int({'eq': a == b, 'ne': a != b, 'ult': a < b, 'ule': a <= b, 'ugt': a > b, 'uge': a >= b,
                    'slt': a < b, 'sle': a <= b, 'sgt': a > b, 'sge': a >= b}[pred])
    A, B = to_bv(a, w), to_bv(b, w)
    c = {'eq': lambda: A == B, 'ne': lambda: A != B, 'ult': lambda: z3.ULT(A, B), 'ule': lambda: z3.ULE(A, B),
         'ugt': lambda: z3.UGT(A, B), 'uge': lambda: z3.UGE(A, B), 'slt': lambda: A < B, 'sle': lambda: A <= B,
         'sgt': lambda: A > B, 'sge': lambda: A >= B}[pred]()
    c = z3.simplify(c)
    if z3.is_true(c): return 1
    if z3.is_false(c): return 0
    return z3.If(c, z3.BitVecVal(1, 1), z3.BitVecVal(0, 1))

def as_bool(c):
    """i1 value (sym) -> z3 Bool"""
    if z3.is_app_of(c, z3.Z3_OP_ITE) and z3.is_bv_value(c.arg(1)) and z3.is_bv_value(c.arg(2)):
        if c.arg(1).as_long() == 1 and c.arg(2).as_long() == 0: return c.arg(0)
        if c.arg(1).as_long() == 0 and c.arg(2).as_long() == 1: return z3.Not(c.arg(0))
    return c == z3.BitVecVal(1, 1)

# ----------------------------------------------------------------------------- memory
class Obj:
    __slots__ = ('base', 'size', 'data', 'name', 'ro', 'live')
    def __init__(s, base, size, name, ro=False):
        s.base = base; s.size = size; s.data = {}; s.name = name; s.ro = ro; s.live = True
    def clone(s):
        o = Obj(s.base, s.size, s.name, s.ro); o.data = dict(s.data); o.live = s.live; return o

class Event(Exception):
    def __init__(s, kind, detail=''):
        s.kind = kind; s.detail = detail

class State:
    def __init__(s):
        s.objs = {}      # base -> Obj  (copy on write: owned set)
        s.bases = []     # sorted
        s.owned = set()
        s.next_base = 0x10000
        s.frames = []
        s.pc = []        # path constraints (z3 Bool)
        s.steps = 0
        s.trace = []
        s.model = None
        s.known = {}     # z3 ast id of an already decided branch condition -> its truth value on this path
        s.gover = {}     # per-path copies of mutable globals
    def fork(s):
        n = State()
        n.objs = dict(s.objs); n.bases = list(s.bases); n.owned = set(); s.owned = set()
        n.next_base = s.next_base
        n.frames = [f.clone() for f in s.frames]
        n.pc = list(s.pc); n.steps = s.steps; n.trace = list(s.trace); n.model = s.model
        n.known = dict(s.known)
        n.gover = dict(s.gover)
        return n
    def alloc(s, size, name, ro=False):
        base = s.next_base
        s.next_base += (max(size, 1) + 0xfff) // 0x1000 * 0x1000 + 0x1000
        o = Obj(base, size, name, ro)
        s.objs[base] = o; s.owned.add(base); bisect.insort(s.bases, base)
        return o
    def find(s, addr, n, write=False):
        if addr >= GLOBAL_BASE:
            g = GLOBALS
            i = bisect.bisect_right(g.bases, addr) - 1
            if i < 0: raise Event('memerr', 'bad global address %#x' % addr)
            base = g.bases[i]
            o = s.gover.get(base) or g.objs[base]
            if addr + n > o.base + o.size: raise Event('memerr', 'access %#x+%d outside %s(size %d)' % (addr, n, o.name, o.size))
            if write:
                if o.ro: raise Event('memerr', 'write to constant ' + o.name)
                # mutable global (`static mut`): per-path copy on write
                if base not in s.owned or base not in s.gover:
                    o = o.clone(); s.gover[base] = o; s.owned.add(base)
            return o
        i = bisect.bisect_right(s.bases, addr) - 1
        if i < 0: raise Event('memerr', 'address %#x below all objects' % addr)
        o = s.objs[s.bases[i]]
        if addr + n > o.base + o.size or not o.live:
            raise Event('memerr', 'access %#x+%d outside %s(size %d, live %s)' % (addr, n, o.name, o.size, o.live))
        if write:
            if o.ro: raise Event('memerr', 'write to constant ' + o.name)
            if o.base not in s.owned:
                o = o.clone(); s.objs[o.base] = o; s.owned.add(o.base)
        return o

GLOBAL_BASE = 0x1_0000_0000
class GlobalSpace:
    def __init__(s):
        s.objs = {}; s.bases = []; s.next_base = GLOBAL_BASE
    def alloc(s, size, name):
        base = s.next_base
        s.next_base += (max(size, 1) + 0xff) // 0x100 * 0x100 + 0x100
        o = Obj(base, size, name); s.objs[base] = o; bisect.insort(s.bases, base); return o
GLOBALS = GlobalSpace()

class Frame:
    def __init__(s, fn, regs):
        s.fn = fn; s.regs = regs; s.block = fn.entry; s.prev = None; s.ip = 0; s.dest = None; s.allocas = []
    def clone(s):
        f = Frame.__new__(Frame)
        f.fn = s.fn; f.regs = dict(s.regs); f.block = s.block; f.prev = s.prev; f.ip = s.ip; f.dest = s.dest; f.allocas = list(s.allocas)
        return f

# ----------------------------------------------------------------------------- executor
PANIC_PAT = re.compile(r'panick|panic_|slice_error_fail|slice_index_fail|slice_start_index|slice_end_index|unwrap_failed|expect_failed|'
                       r'panic_bounds_check|handle_alloc_error|capacity_overflow|raw_vec12handle_error|str_index_overflow|'
                       r'7handle_error|begin_panic|rust_panic|4core6option13|4core6result13|core..cell..panic')

GADDR = {}
FADDR = {}
class Exec:
    def __init__(s, mod, max_steps=200000):
        s.mod = mod
        s.solver = z3.Solver()
        s.stats = collections.Counter()
        s.gaddr = GADDR
        s.max_steps = max_steps
        s.solver_time = 0.0
        s.results = []
        s.hooks = {}

    # ---- solver: one incremental solver whose assertion stack follows the DFS (states explored one after the other share
    # long path-condition prefixes, so a query usually pushes one or two constraints instead of re-asserting everything)
    def _sync(s, pc):
        cur = s.__dict__.setdefault('_asserted', [])
        i = 0
        n = min(len(cur), len(pc))
        while i < n and cur[i] == pc[i].get_id(): i += 1
        for _ in range(len(cur) - i): s.solver.pop()
        del cur[i:]
        for c in pc[i:]:
            s.solver.push(); s.solver.add(c); cur.append(c.get_id())
    def feasible(s, st, extra):
        s.stats['queries'] += 1
        t = time.time()
        s._sync(st.pc)
        s.solver.push()
        s.solver.add(extra)
        r = s.solver.check()
        m = s.solver.model() if r == z3.sat else None
        s.solver.pop()
        s.solver_time += time.time() - t
        if r == z3.unknown: raise Event('inconclusive', 'solver unknown')
        return m
    def model(s, st):
        s._sync(st.pc)
        r = s.solver.check()
        m = s.solver.model() if r == z3.sat else None
        return m
    def values_of(s, st, e, limit=16):
        """all feasible values of symbolic e under the path condition"""
        vals = []
        s._sync(st.pc)
        s.solver.push()
        while len(vals) <= limit:
            s.stats['queries'] += 1
            if s.solver.check() != z3.sat: break
            v = s.solver.model().eval(e, model_completion=True).as_long()
            vals.append(v); s.solver.add(e != v)
        s.solver.pop()
        if len(vals) > limit: raise Event('inconclusive', 'too many values for symbolic address/size')
        return vals

    # ---- globals
    def global_addr(s, st, name):
        if name in s.gaddr: return s.gaddr[name]
        if name in s.mod.funcs or name in s.mod.decls:
            # function address: fake
            a = 0x7000_0000_0000 + len(s.gaddr) * 16
            s.gaddr[name] = a; FADDR[a] = name
            return a
        line = s.mod.globals.get(name)
        if line is None: raise Event('unsupported', 'unknown global ' + name)
        tk = Toks(tokenize(line), line)
        tk.next(); tk.expect('=')
        ro = False
        while True:
            k, v = tk.peek()
            if v in ('constant',): ro = True; tk.next(); break
            if v in ('global',): tk.next(); break
            tk.next()
            if tk.peek()[1] == '(' :
                while tk.next()[1] != ')': pass
        ty = parse_type(tk)
        init = parse_operand(tk, ty) if not tk.eof() and tk.peek()[1] not in (',',) else ('zero',)
        o = GLOBALS.alloc(size_of(ty), name)
        s.gaddr[name] = o.base
        s.write_const(st, o, 0, ty, init)
        o.ro = ro
        return o.base
    def write_const(s, st, o, off, ty, init):
        k = init[0]
        if k == 'zero' or k == 'undef':
            for i in range(size_of(ty)): o.data[off + i] = 0
        elif k == 'bytes':
            for i, b in enumerate(init[1]): o.data[off + i] = b
        elif k == 'int':
            n = size_of(ty)
            for i in range(n): o.data[off + i] = (init[1] >> (8 * i)) & 0xff
        elif k == 'agg':
            if isinstance(ty, StructTy):
                offs, _ = struct_layout(ty)
                for (ety, e), eo in zip(init[1], offs): s.write_const(st, o, off + eo, ety, e)
            else:
                es = size_of(ty.el)
                for i, (ety, e) in enumerate(init[1]): s.write_const(st, o, off + i * es, ety, e)
        elif k in ('glob', 'cgep'):
            a = s.eval_const(st, init)
            for i in range(8): o.data[off + i] = (a >> (8 * i)) & 0xff
        elif k in ('ccast', 'cbin'):
            a = s.eval_const(st, init)
            for i in range(size_of(ty)): o.data[off + i] = (a >> (8 * i)) & 0xff
        else:
            raise Event('unsupported', 'const init ' + k)
    def eval_const(s, st, op):
        if op[0] == 'glob': return s.global_addr(st, op[1])
        if op[0] == 'int': return op[1]
        if op[0] == 'cgep':
            base = s.eval_const(st, op[2])
            return s.gep(base, op[1], [(t, s.eval_const(st, o)) for t, o in op[3]])
        if op[0] == 'ccast':
            _, kind, sty, dty, inner = op
            v = s.eval_const(st, inner)
            sw = sty.bits; dw = dty.bits
            v &= mask(sw)
            if kind == 'sext': v = sgn(v, sw)
            return v & mask(dw)
        if op[0] == 'cbin':
            _, kind, ty, a, b = op
            return binop(kind, s.eval_const(st, a) & mask(ty.bits), s.eval_const(st, b) & mask(ty.bits), ty.bits)
        raise Event('unsupported', 'const expr ' + op[0])

    # ---- operand evaluation
    def ev(s, st, fr, op, ty=None):
        k = op[0]
        if k == 'local':
            try: return fr.regs[op[1]]
            except KeyError: raise Event('unsupported', 'undefined register %s in %s' % (op[1], fr.fn.name))
        if k == 'int':
            w = ty.bits if isinstance(ty, (IntTy, PtrTy)) else 64
            return op[1] & mask(w)
        if k in ('glob', 'cgep', 'ccast', 'cbin'): return s.eval_const(st, op)
        if k == 'undef':
            if isinstance(ty, StructTy): return tuple(UNDEF for _ in ty.els)
            return UNDEF
        if k == 'zero':
            if isinstance(ty, StructTy): return tuple(0 for _ in ty.els)
            return 0
        if k == 'agg':
            return tuple(s.ev(st, fr, e, t) for t, e in op[1])
        raise Event('unsupported', 'operand ' + k)

    def gep(s, base, bty, idx):
        off = 0
        ty = bty
        first = True
        for ity, v in idx:
            w = ity.bits if isinstance(ity, IntTy) else 64
            if not is_sym(v): v = sgn(v, w)
            elif w < 64: v = z3.SignExt(64 - w, v)
            if first:
                sz = size_of(ty); first = False
                term = v * sz if not is_sym(v) else simp(v * z3.BitVecVal(sz, 64))
            elif isinstance(ty, StructTy):
                offs, _ = struct_layout(ty); term = offs[v]; ty = ty.els[v]
            elif isinstance(ty, ArrTy):
                ty = ty.el; sz = size_of(ty)
                term = v * sz if not is_sym(v) else simp(v * z3.BitVecVal(sz, 64))
            else:
                raise Event('unsupported', 'gep into %r' % ty)
            off = binop('add', off, term if is_sym(term) else term & mask(64), 64)
        return binop('add', base, off, 64)

    # ---- memory access
    def concretize(s, st, v, what):
        """returns list of (state, concrete) forks"""
        if not is_sym(v): return [(st, v)]
        vals = s.values_of(st, v)
        s.stats['addr_forks'] += max(0, len(vals) - 1)
        out = []
        for i, c in enumerate(vals):
            n = st if i == len(vals) - 1 else st.fork()
            n.pc.append(v == c); n.model = None
            out.append((n, c))
        return out
    def load(s, st, addr, ty):
        if isinstance(ty, StructTy):
            offs, _ = struct_layout(ty)
            return tuple(s.load(st, addr + o, t) for t, o in zip(ty.els, offs))
        n = size_of(ty)
        o = st.find(addr, n)
        off = addr - o.base
        bs = [o.data.get(off + i) for i in range(n)]
        if all(b is None for b in bs):
            return UNDEF
        # a wider load over partly uninitialised bytes (a field followed by padding, copied as one integer): the defined bytes keep their
        # value; the uninitialised ones are padding the program never looks at and read as 0 (one of the values `undef` may take)
        bs = [0 if b is None else b for b in bs]
        if all(not is_sym(b) for b in bs):
            v = 0
            for i, b in enumerate(bs): v |= b << (8 * i)
        else:
            v = simp(z3.Concat(*[to_bv(b, 8) for b in reversed(bs)])) if n > 1 else bs[0]
        w = ty.bits if isinstance(ty, IntTy) else 64
        if w < 8 * n:
            v = v & mask(w) if not is_sym(v) else simp(z3.Extract(w - 1, 0, v))
        return v
    def store(s, st, addr, ty, v):
        if isinstance(ty, StructTy):
            offs, _ = struct_layout(ty)
            for t, o, x in zip(ty.els, offs, v): s.store(st, addr + o, t, x)
            return
        n = size_of(ty)
        o = st.find(addr, n, write=True)
        off = addr - o.base
        if isinstance(v, Undef):
            for i in range(n): o.data.pop(off + i, None)
            return
        w = ty.bits if isinstance(ty, IntTy) else 64
        if is_sym(v):
            if w < 8 * n: v = z3.ZeroExt(8 * n - w, v)
            for i in range(n): o.data[off + i] = simp(z3.Extract(8 * i + 7, 8 * i, v))
        else:
            for i in range(n): o.data[off + i] = (v >> (8 * i)) & 0xff

    # ---- running
    def run(s, fname, args, setup=None):
        s.root = State()
        st = s.root
        fn = s.mod.funcs[fname]; fn.parse()
        regs = {}
        for (pty, pname), a in zip(fn.params, args): regs[pname] = a
        st.frames.append(Frame(fn, regs))
        if setup: setup(s, st)
        work = [st]
        while work:
            st = work.pop()
            try:
                forks = s.step_until_fork(st)
                work.extend(forks)
            except Event as e:
                s.finish(st, e)
        return s.results

    def finish(s, st, e):
        s.stats['paths'] += 1
        s.stats['end_' + e.kind] += 1
        if e.kind in ('ret',):
            if getattr(s, 'keep_ret', False): s.results.append((e.kind, e.detail, st, s.model(st)))
            return
        m = s.model(st) if e.kind not in ('infeasible',) else None
        s.results.append((e.kind, e.detail, st, m))

    def step_until_fork(s, st):
        while True:
            fr = st.frames[-1]
            blk = fr.fn.blocks[fr.block]
            ins = blk[fr.ip]
            st.steps += 1
            if st.steps > s.max_steps: raise Event('inconclusive', 'step budget exceeded')
            s.stats['instrs'] += 1
            k = ins[0]
            if k == 'bin':
                _, d, op, ty, a, b = ins
                fr.regs[d] = binop(op, s.ev(st, fr, a, ty), s.ev(st, fr, b, ty), ty.bits); fr.ip += 1
            elif k == 'icmp':
                _, d, pred, ty, a, b = ins
                fr.regs[d] = icmp(pred, s.ev(st, fr, a, ty), s.ev(st, fr, b, ty), ty.bits); fr.ip += 1
            elif k == 'cast':
                _, d, op, sty, a, dty = ins
                v = s.ev(st, fr, a, sty)
                sw, dw = sty.bits, dty.bits
                if isinstance(v, Undef): r = v
                elif op in ('ptrtoint', 'inttoptr', 'bitcast', 'addrspacecast'):
                    r = v if dw >= sw else (v & mask(dw) if not is_sym(v) else simp(z3.Extract(dw - 1, 0, v)))
                    if dw > sw and is_sym(v): r = simp(z3.ZeroExt(dw - sw, v))
                elif op == 'zext': r = v if not is_sym(v) else simp(z3.ZeroExt(dw - sw, v))
                elif op == 'sext': r = sgn(v, sw) & mask(dw) if not is_sym(v) else simp(z3.SignExt(dw - sw, v))
                elif op == 'trunc': r = v & mask(dw) if not is_sym(v) else simp(z3.Extract(dw - 1, 0, v))
                fr.regs[d] = r; fr.ip += 1
            elif k == 'load':
                _, d, ty, p = ins
                a = s.ev(st, fr, p, PTR)
                if is_sym(a):
                    forks = s.concretize(st, a, 'load')
                    for n, c in forks:
                        nf = n.frames[-1]
                        # rewrite pointer register to the concrete value if it is a plain local
                        if p[0] == 'local': nf.regs[p[1]] = c
                    return [n for n, _ in forks]
                fr.regs[d] = s.load(st, a, ty); fr.ip += 1
            elif k == 'store':
                _, ty, v, p = ins
                a = s.ev(st, fr, p, PTR)
                if is_sym(a):
                    forks = s.concretize(st, a, 'store')
                    for n, c in forks:
                        if p[0] == 'local': n.frames[-1].regs[p[1]] = c
                    return [n for n, _ in forks]
                s.store(st, a, ty, s.ev(st, fr, v, ty)); fr.ip += 1
            elif k == 'alloca':
                _, d, ty, cnt, al = ins
                n = s.ev(st, fr, cnt, IntTy(64))
                o = st.alloc(size_of(ty) * n, 'alloca:' + d)
                fr.allocas.append(o.base)
                fr.regs[d] = o.base; fr.ip += 1
            elif k == 'gep':
                _, d, bty, p, idx = ins
                fr.regs[d] = s.gep(s.ev(st, fr, p, PTR), bty, [(t, s.ev(st, fr, o, t)) for t, o in idx]); fr.ip += 1
            elif k == 'select':
                _, d, ty, c, a, b = ins
                cv = s.ev(st, fr, c, IntTy(1))
                av = s.ev(st, fr, a, ty); bv_ = s.ev(st, fr, b, ty)
                if isinstance(cv, Undef):
                    # LLVM speculates selects over fields of an enum variant that is not the live one; the value is then discarded by a
                    # later select on the discriminant.  Propagate undef: any *use* that matters (branch, address, call argument) is
                    # still reported as unsupported where it happens.
                    r = av if (not is_sym(av) and not is_sym(bv_) and not isinstance(av, (tuple, Undef)) and av == bv_) else Undef()
                elif not is_sym(cv): r = av if cv else bv_
                elif isinstance(av, tuple) or isinstance(bv_, tuple) or isinstance(av, Undef) or isinstance(bv_, Undef):
                    return s.branch(st, cv, lambda n, t: n.frames[-1].regs.__setitem__(d, av if t else bv_) or setattr(n.frames[-1], 'ip', n.frames[-1].ip + 1))
                else:
                    w = ty.bits
                    r = simp(z3.If(as_bool(cv), to_bv(av, w), to_bv(bv_, w)))
                fr.regs[d] = r; fr.ip += 1
            elif k == 'phi':
                # evaluate all phis of the block simultaneously
                vals = []
                i = fr.ip
                while blk[i][0] == 'phi':
                    _, d, ty, inc = blk[i]
                    for v, lab in inc:
                        if lab == fr.prev:
                            vals.append((d, s.ev(st, fr, v, ty))); break
                    else:
                        raise Event('unsupported', 'phi without incoming for %s in %s' % (fr.prev, fr.fn.name))
                    i += 1
                for d, v in vals: fr.regs[d] = v
                fr.ip = i
            elif k == 'br':
                fr.prev = fr.block; fr.block = ins[1]; fr.ip = 0
            elif k == 'condbr':
                _, c, t, f = ins
                cv = s.ev(st, fr, c, IntTy(1))
                if isinstance(cv, Undef): raise Event('unsupported', 'branch on undef in ' + fr.fn.name)
                if not is_sym(cv):
                    fr.prev = fr.block; fr.block = t if cv else f; fr.ip = 0
                else:
                    def go(n, taken, t=t, f=f):
                        nf = n.frames[-1]; nf.prev = nf.block; nf.block = t if taken else f; nf.ip = 0
                    return s.branch(st, cv, go)
            elif k == 'switch':
                _, ty, v, dflt, cases = ins
                x = s.ev(st, fr, v, ty)
                if not is_sym(x):
                    tgt = dflt
                    for cv, lab in cases:
                        if cv & mask(ty.bits) == x: tgt = lab; break
                    fr.prev = fr.block; fr.block = tgt; fr.ip = 0
                else:
                    out = []
                    rest = []
                    for cv, lab in cases:
                        cond = x == (cv & mask(ty.bits))
                        rest.append(x != (cv & mask(ty.bits)))
                        mm = s.feasible(st, cond)
                        if mm is not None:
                            n = st.fork(); n.pc.append(cond); n.model = mm
                            nf = n.frames[-1]; nf.prev = nf.block; nf.block = lab; nf.ip = 0
                            out.append(n)
                    dc = z3.And(*rest) if rest else z3.BoolVal(True)
                    mm = s.feasible(st, dc)
                    if mm is not None:
                        st.model = mm
                        st.pc.append(dc); fr.prev = fr.block; fr.block = dflt; fr.ip = 0
                        out.append(st)
                    s.stats['forks'] += max(0, len(out) - 1)
                    if not out: raise Event('infeasible')
                    return out
            elif k == 'extractvalue':
                _, d, ty, a, idx = ins
                v = s.ev(st, fr, a, ty)
                for i in idx: v = v[i]
                fr.regs[d] = v; fr.ip += 1
            elif k == 'insertvalue':
                _, d, ty, a, ety, e, idx = ins
                v = s.ev(st, fr, a, ty); x = s.ev(st, fr, e, ety)
                def ins_(t, path):
                    if isinstance(t, Undef): raise Event('unsupported', 'insertvalue nested undef')
                    l = list(t)
                    l[path[0]] = x if len(path) == 1 else ins_(l[path[0]], path[1:])
                    return tuple(l)
                fr.regs[d] = ins_(v, idx); fr.ip += 1
            elif k == 'freeze':
                _, d, ty, a = ins
                v = s.ev(st, fr, a, ty)
                fr.regs[d] = 0 if isinstance(v, Undef) else v; fr.ip += 1
            elif k == 'call':
                r = s.call(st, fr, ins)
                if r is not None: return r
            elif k == 'ret':
                _, ty, v = ins
                rv = s.ev(st, fr, v, ty) if v is not None else None
                for b in fr.allocas:
                    o = st.find(b, 0, write=True); o.live = False
                st.frames.pop()
                if not st.frames: raise Event('ret', rv)
                cf = st.frames[-1]
                if cf.dest is not None: cf.regs[cf.dest] = rv
                cf.ip += 1
            elif k == 'unreachable':
                raise Event('unreachable', 'reached unreachable in ' + fr.fn.name)
            else:
                raise Event('unsupported', str(ins[1:])[:200])

    def branch(s, st, cv, apply):
        c = as_bool(cv)
        s.stats['sym_branches'] += 1
        # a condition (or its negation) that was already decided on this path needs no query
        base, pol = (c.arg(0), False) if z3.is_not(c) else (c, True)
        kid = base.get_id()
        k = st.known.get(kid)
        if k is not None:
            s.stats['known_hits'] += 1
            apply(st, k == pol)
            return [st]
        if st.model is None:
            st.model = s.feasible(st, z3.BoolVal(True))
            if st.model is None: raise Event('infeasible')
        side = z3.is_true(st.model.eval(c, model_completion=True))
        other = s.feasible(st, z3.Not(c) if side else c)
        out = []
        if other is not None:
            n = st.fork()
            n.pc.append(z3.Not(c) if side else c); n.model = other; n.known[kid] = ((not side) == pol); apply(n, not side); out.append(n)
            s.stats['forks'] += 1
        st.pc.append(c if side else z3.Not(c)); st.known[kid] = (side == pol); apply(st, side); out.append(st)
        return out

    # ---- calls
    def call(s, st, fr, ins):
        _, d, rty, callee, args = ins
        if callee[0] == 'local':
            fp = fr.regs[callee[1]]
            name = FADDR.get(fp)
            if name is None: raise Event('unsupported', 'indirect call to %r' % (fp,))
        else:
            name = callee[1]
        bare = name[1:].strip('"')
        if bare in s.hooks:
            av = [s.ev(st, fr, a, t) for t, a in args]
            r = s.hooks[bare](s, st, fr, av)
            if d is not None: fr.regs[d] = r
            fr.ip += 1; return None
        if bare.startswith('llvm.'):
            return s.intrinsic(st, fr, bare, d, rty, args)
        if PANIC_PAT.search(bare):
            raise Event('panic', bare)
        if bare in ('memcmp', 'bcmp', 'malloc', 'free', 'realloc', 'calloc', 'memcpy', 'memmove', 'memset', 'abort', 'posix_memalign', 'aligned_alloc'):
            return s.libc(st, fr, bare, d, rty, args)
        fn = s.mod.funcs.get(name)
        if fn is None:
            raise Event('unsupported', 'call to external ' + bare)
        fn.parse()
        regs = {}
        for (pty, pname), (aty, a) in zip(fn.params, args): regs[pname] = s.ev(st, fr, a, aty)
        fr.dest = d
        st.frames.append(Frame(fn, regs))
        if len(st.frames) > 200: raise Event('inconclusive', 'call depth')
        return None

    def force_concrete(s, st, fr, args, which):
        """if any of args[which] evaluates symbolic: fork over its values, rewriting the register; returns forks or None"""
        for i in which:
            t, a = args[i]
            v = s.ev(st, fr, a, t)
            if is_sym(v):
                if a[0] != 'local': raise Event('unsupported', 'symbolic non-register argument')
                forks = s.concretize(st, v, 'arg')
                for n, c in forks: n.frames[-1].regs[a[1]] = c
                return [n for n, _ in forks]
        return None

    def intrinsic(s, st, fr, name, d, rty, args):
        av = lambda i: s.ev(st, fr, args[i][1], args[i][0])
        if re.match(r'llvm\.mem(cpy|move|set)', name):
            f = s.force_concrete(st, fr, args, [0, 2] if 'memset' in name else [0, 1, 2])
            if f is not None: return f
        r = None
        if re.match(r'llvm\.(lifetime|assume|experimental\.noalias|dbg|invariant|prefetch|donothing)', name):
            if name.startswith('llvm.assume'):
                c = av(0)
                if is_sym(c): st.pc.append(as_bool(c)); st.model = None
        elif name.startswith('llvm.expect'): r = av(0)
        elif re.match(r'llvm\.mem(cpy|move)', name):
            return s.memcpy(st, fr, av(0), av(1), av(2), d, None)
        elif name.startswith('llvm.memset'):
            dst, val, n = av(0), av(1), av(2)
            if is_sym(dst) or is_sym(n): raise Event('unsupported', 'symbolic memset')
            if n:
                o = st.find(dst, n, write=True)
                for i in range(n): o.data[dst - o.base + i] = val
        elif re.match(r'llvm\.(umin|umax|smin|smax)\.', name):
            w = rty.bits; a, b = av(0), av(1)
            pred = {'umin': 'ult', 'umax': 'ugt', 'smin': 'slt', 'smax': 'sgt'}[name.split('.')[1]]
            c = icmp(pred, a, b, w)
            r = (a if c else b) if not is_sym(c) else simp(z3.If(as_bool(c), to_bv(a, w), to_bv(b, w)))
        elif re.match(r'llvm\.(uadd|usub|umul|sadd|ssub|smul)\.with\.overflow', name):
            w = args[0][0].bits; a, b = av(0), av(1)
            op = name.split('.')[1]
            if not is_sym(a) and not is_sym(b):
                if op[0] == 'u': x = {'add': a + b, 'sub': a - b, 'mul': a * b}[op[1:]]; ov = int(x < 0 or x > mask(w))
                else:
                    x = {'add': sgn(a, w) + sgn(b, w), 'sub': sgn(a, w) - sgn(b, w), 'mul': sgn(a, w) * sgn(b, w)}[op[1:]]
                    ov = int(x < -(1 << (w - 1)) or x >= (1 << (w - 1)))
                r = (x & mask(w), ov)
            else:
                A, B = to_bv(a, w), to_bv(b, w)
                ext = z3.ZeroExt if op[0] == 'u' else z3.SignExt
                A2, B2 = ext(w, A), ext(w, B)
                X = {'add': A2 + B2, 'sub': A2 - B2, 'mul': A2 * B2}[op[1:]]
                lo = z3.Extract(w - 1, 0, X)
                ov = z3.If(ext(w, lo) != X, z3.BitVecVal(1, 1), z3.BitVecVal(0, 1))
                r = (simp(lo), simp(ov))
        elif re.match(r'llvm\.(uadd|usub)\.sat', name):
            w = rty.bits; a, b = av(0), av(1)
            if not is_sym(a) and not is_sym(b):
                r = min(a + b, mask(w)) if 'uadd' in name else max(a - b, 0)
            else:
                A, B = to_bv(a, w), to_bv(b, w)
                r = simp(z3.If(z3.ULT(A + B, A), z3.BitVecVal(mask(w), w), A + B)) if 'uadd' in name else simp(z3.If(z3.ULT(A, B), z3.BitVecVal(0, w), A - B))
        elif re.match(r'llvm\.(ctlz|cttz|ctpop|bswap|abs|fshl|fshr)', name):
            w = rty.bits; a = av(0)
            if is_sym(a): raise Event('unsupported', 'symbolic ' + name)
            kind = name.split('.')[1]
            if kind == 'ctpop': r = bin(a).count('1')
            elif kind == 'ctlz': r = w - a.bit_length()
            elif kind == 'cttz': r = w if a == 0 else (a & -a).bit_length() - 1
            elif kind == 'bswap': r = int.from_bytes(a.to_bytes(w // 8, 'little'), 'big')
            elif kind == 'abs': r = abs(sgn(a, w)) & mask(w)
            else:
                b, c = av(1), av(2)
                if is_sym(b) or is_sym(c): raise Event('unsupported', 'symbolic ' + name)
                c %= w; x = (a << w) | b
                r = ((x << c) >> w) & mask(w) if kind == 'fshl' else (x >> c) & mask(w)
        elif name.startswith('llvm.load.relative'):
            f = s.force_concrete(st, fr, args, [0, 1])
            if f is not None: return f
            p, off = av(0), av(1)
            v = s.load(st, (p + sgn(off, 64)) & mask(64), IntTy(32))
            if is_sym(v) or isinstance(v, Undef): raise Event('unsupported', 'symbolic relative table entry')
            r = (p + sgn(v, 32)) & mask(64)
        elif name.startswith('llvm.trap') or name.startswith('llvm.ubsantrap'):
            raise Event('panic', name)
        else:
            raise Event('unsupported', 'intrinsic ' + name)
        if d is not None: fr.regs[d] = r
        fr.ip += 1
        return None

    def memcpy(s, st, fr, dst, src, n, d, ret):
        if is_sym(dst) or is_sym(src) or is_sym(n):
            raise Event('unsupported', 'symbolic memcpy args')
        if n:
            so = st.find(src, n); do = st.find(dst, n, write=True)
            tmp = [so.data.get(src - so.base + i) for i in range(n)]
            for i, b in enumerate(tmp):
                if b is None: do.data.pop(dst - do.base + i, None)
                else: do.data[dst - do.base + i] = b
        if d is not None: fr.regs[d] = ret
        fr.ip += 1
        return None

    def libc(s, st, fr, name, d, rty, args):
        f = s.force_concrete(st, fr, args, range(len(args)))
        if f is not None: return f
        av = [s.ev(st, fr, a, t) for t, a in args]
        r = None
        if name in ('memcmp', 'bcmp'):
            a, b, n = av
            if is_sym(a) or is_sym(b) or is_sym(n): raise Event('unsupported', 'symbolic memcmp args')
            res = 0
            terms = []
            for i in range(n):
                x = s.load(st, a + i, IntTy(8)); y = s.load(st, b + i, IntTy(8))
                if isinstance(x, Undef) or isinstance(y, Undef): raise Event('memerr', 'memcmp on uninit')
                terms.append((x, y))
            if all(not is_sym(x) and not is_sym(y) for x, y in terms):
                for x, y in terms:
                    if x != y: res = (1 if x > y else -1) & mask(32); break
                r = res
            else:
                # build nested ite from the last byte backwards
                e = z3.BitVecVal(0, 32)
                for x, y in reversed(terms):
                    X, Y = to_bv(x, 8), to_bv(y, 8)
                    e = z3.If(X == Y, e, z3.If(z3.ULT(X, Y), z3.BitVecVal(mask(32), 32), z3.BitVecVal(1, 32)))
                r = simp(e)
        elif name in ('malloc', 'calloc', 'aligned_alloc', 'posix_memalign'):
            n = av[0] if name == 'malloc' else (av[0] * av[1] if name == 'calloc' else av[1])
            if is_sym(n): raise Event('unsupported', 'symbolic malloc size')
            o = st.alloc(n, 'heap')
            if name == 'calloc':
                for i in range(n): o.data[i] = 0
            r = o.base
        elif name == 'realloc':
            p, n = av
            if is_sym(p) or is_sym(n): raise Event('unsupported', 'symbolic realloc')
            o = st.alloc(n, 'heap')
            if p:
                old = st.find(p, 0)
                for i in range(min(n, old.size)):
                    if i in old.data: o.data[i] = old.data[i]
                old = st.find(p, 0, write=True); old.live = False
            r = o.base
        elif name == 'free':
            p = av[0]
            if p:
                o = st.find(p, 0, write=True); o.live = False
        elif name in ('memcpy', 'memmove'):
            return s.memcpy(st, fr, av[0], av[1], av[2], d, av[0])
        elif name == 'abort':
            raise Event('panic', 'abort')
        else:
            raise Event('unsupported', 'libc ' + name)
        if d is not None: fr.regs[d] = r
        fr.ip += 1
        return None
