// C05 (decision half) wrapper: `FmtAttribute::transparent_call` - the function that decides whether a format attribute is one bare
// placeholder to be delegated, to which expression and under which trait - cut verbatim out of the working-tree impl/src/fmt/mod.rs
// together with `FmtAttribute` and `FmtArgument`, compiled with the working-tree literal parser (impl/src/fmt/parsing.rs) and
// `Expr` (impl/src/parsing.rs) against the syn / proc_macro2 / quote environment stubs, and compared with the documented rule restated
// over std's own reading of the literal (oracle.rs, pinned against rustc_parse_format).
#![allow(dead_code, unused, clippy::all)]

#[path = "@SCANNER_RS@"]
mod parsing;

mod fmt {
    #[path = "@FMT_PARSING_RS@"]
    pub mod parsing;
    use crate::parsing::Expr;
    use proc_macro2::TokenStream;
    use quote::{format_ident, ToTokens};
    use syn::{ext::IdentExt as _, parse::{Parse, ParseStream}, punctuated::Punctuated, token};
@ITEMS@

    /// `bounded_types(fields)`: the (field type id, first byte and length of the trait name) pairs in the order produced
    pub fn bounds(lit: syn::LitStr, args: Vec<(Option<syn::Ident>, Expr)>, fields: &syn::Fields, out: &mut [(u8, u8, u8); 6]) -> usize {
        let mut p = Punctuated::new();
        for (alias, expr) in args {
            p.push(FmtArgument { alias: alias.map(|a| (a, token::Eq { idx: 0 })), expr });
        }
        let attr = FmtAttribute { lit, comma: None, args: p };
        let mut n = 0;
        for (ty, tr) in attr.bounded_types(fields) {
            if n < out.len() { out[n] = (ty.0, tr.as_bytes()[0], tr.len() as u8); }
            n += 1;
        }
        n
    }

    /// the attribute `#[display(<lit>, <args>)]` as the derive holds it after parsing
    pub fn decide(lit: syn::LitStr, args: Vec<(Option<syn::Ident>, Expr)>) -> Option<(Expr, syn::Ident)> {
        let mut p = Punctuated::new();
        for (alias, expr) in args {
            p.push(FmtArgument { alias: alias.map(|a| (a, token::Eq { idx: 0 })), expr });
        }
        FmtAttribute { lit, comma: None, args: p }.transparent_call()
    }
    /// `placeholders_by_arg(name)` / `contains_arg(name)`: (contains, number of placeholders, for each up to 6: has_modifiers, first byte and
    /// length of the trait name)
    pub fn by_arg(lit: syn::LitStr, args: Vec<(Option<syn::Ident>, Expr)>, name: &str, out: &mut [(bool, u8, u8); 6]) -> (bool, usize) {
        let mut p = Punctuated::new();
        for (alias, expr) in args {
            p.push(FmtArgument { alias: alias.map(|a| (a, token::Eq { idx: 0 })), expr });
        }
        let attr = FmtAttribute { lit, comma: None, args: p };
        let contains = attr.contains_arg(name);
        let mut n = 0;
        for ph in attr.placeholders_by_arg(name) {
            if n < out.len() { out[n] = (ph.has_modifiers, ph.trait_name.as_bytes()[0], ph.trait_name.len() as u8); }
            n += 1;
        }
        (contains, n)
    }
}

#[path = "@ORACLE_RS@"]
pub mod oracle;
use oracle::*;
use parsing::Expr;

static NAMES: [u8; 2] = [b'a', b'b'];

fn ident(which: u8, idx: u32) -> syn::Ident {
    syn::Ident { idx, keyword: false, text: &NAMES[(which & 1) as usize] as *const u8, text_len: 1 }
}

/// (first byte, length) of the trait name the documented rule selects for a type code of oracle.rs
fn trait_sig(ty: u8) -> (u8, u8) {
    match ty {
        0 => (b'D', 7),
        1 | 2 | 3 => (b'D', 5),
        4 => (b'O', 5),
        5 => (b'L', 8),
        6 => (b'U', 8),
        7 => (b'P', 7),
        8 => (b'B', 6),
        9 => (b'L', 8),
        _ => (b'U', 8),
    }
}

fn build_args(cfg: u32) -> (usize, Vec<(Option<syn::Ident>, Expr)>) {
    let nargs = (cfg & 3) as usize;
    let mut args: Vec<(Option<syn::Ident>, Expr)> = Vec::new();
    let mut k = 0;
    while k < nargs && k < 2 {
        let a = (cfg >> (2 + 4 * k)) & 15;
        let alias = if a & 1 != 0 { Some(ident(((a >> 1) & 1) as u8, 100 + k as u32)) } else { None };
        let expr = if a & 4 != 0 {
            Expr::Ident(ident(((a >> 3) & 1) as u8, 10 + k as u32))
        } else {
            Expr::Other(proc_macro2::TokenStream { first: 10 + k as u32, n: 3, in_order: true })
        };
        args.push((alias, expr));
        k += 1;
    }
    (nargs, args)
}

static NAMES4: [&[u8]; 4] = [b"a", b"b", b"_0", b"_1"];

fn ident4(which: u32, idx: u32) -> syn::Ident {
    let n = NAMES4[(which & 3) as usize];
    syn::Ident { idx, keyword: false, text: n.as_ptr(), text_len: n.len() }
}

/// C04 (placeholder -> (field type, trait) mapping): `bounded_types`.
/// `cfg`: bits 0-1 number of arguments (0..=2); bit 2 the fields are unnamed `(T0, T1)` (else named `{ a: T0, b: T1 }`);
///   per argument k (6 bits from bit 3 + 6k): bit0 has alias, bits1-2 alias name, bit3 the expression is a single identifier, bits4-5 its name
///   (names: a, b, _0, _1).
/// A placeholder needs a bound when the argument format_args! resolves it to (the explicit `name = expr` argument, else the variable of that name,
/// for a named placeholder; the i-th argument of the list, named or not, for a positional / implicit one) is a single identifier that names a
/// field: `a` / `b` of a named struct, `_0` / `_1` of a tuple struct.  The bound is (that field's type, the placeholder's trait).  Literals in which
/// a placeholder or identifier argument names no binding of the expansion (`{c}`, `{_00}`, `a` in a tuple struct) do not compile: nothing is
/// demanded for them.
/// Codes: 0 agree (or std rejects the literal / an index is out of range); 8 a different number of bounds; 9 a bound on a different field type or
/// for a different trait
#[no_mangle]
pub unsafe extern "C" fn probe_bounds(ptr: *const u8, len: usize, digest: *mut u8, cfg: u32) -> u32 {
    let bytes = core::slice::from_raw_parts(ptr, len);
    let d = core::slice::from_raw_parts_mut(digest, 64);
    let nargs = (cfg & 3) as usize;
    let unnamed = (cfg >> 2) & 1 != 0;
    let argbits = |k: usize| (cfg >> (3 + 6 * k)) & 63;
    let mut args: Vec<(Option<syn::Ident>, Expr)> = Vec::new();
    let mut k = 0;
    while k < nargs && k < 2 {
        let a = argbits(k);
        let alias = if a & 1 != 0 { Some(ident4((a >> 1) & 3, 100 + k as u32)) } else { None };
        let expr = if a & 8 != 0 { Expr::Ident(ident4((a >> 4) & 3, 10 + k as u32)) } else { Expr::Other(proc_macro2::TokenStream { first: 10 + k as u32, n: 3, in_order: true }) };
        args.push((alias, expr));
        k += 1;
    }
    let mk = |name: Option<u32>, ty: u8| syn::Field { ident: name.map(|n| ident4(n, 200)), ty: syn::Type(ty) };
    let mut list = syn::punctuated::Punctuated::new();
    let fields = if unnamed {
        list.push(mk(None, 0)); list.push(mk(None, 1));
        syn::Fields::Unnamed(syn::FieldsUnnamed { unnamed: list })
    } else {
        list.push(mk(Some(0), 0)); list.push(mk(Some(1), 1));
        syn::Fields::Named(syn::FieldsNamed { named: list })
    };
    let mut got = [(0u8, 0u8, 0u8); 6];
    let gn = fmt::bounds(syn::LitStr { ptr, len }, args, &fields, &mut got);
    d[0] = gn as u8;
    let r = reference(bytes);
    if !r.ok || r.n > MAXPH { return 0; }
    // which field does an identifier name?
    let field_of = |name: &[u8]| -> Option<u8> {
        if unnamed {
            if name == b"_0" { Some(0) } else if name == b"_1" { Some(1) } else { None }
        } else if name == b"a" { Some(0) } else if name == b"b" { Some(1) } else { None }
    };
    let mut want = [(0u8, 0u8, 0u8); 6];
    let mut wn = 0usize;
    let mut i = 0;
    while i < r.n {
        let ph = &r.ph[i];
        let mut target: Option<u8> = None;
        if ph.kind == K_NAME {
            let name = &bytes[ph.a..ph.b];
            let mut explicit: Option<usize> = None;
            let mut k = 0;
            while k < nargs {
                let a = argbits(k);
                if a & 1 != 0 && name == NAMES4[((a >> 1) & 3) as usize] && explicit.is_none() { explicit = Some(k); }
                k += 1;
            }
            match explicit {
                Some(k) => {
                    let a = argbits(k);
                    if a & 8 != 0 {
                        target = field_of(NAMES4[((a >> 4) & 3) as usize]);
                        // an identifier that names no binding of the expansion: the program does not compile, nothing is demanded
                        if target.is_none() { return 0; }
                    }
                }
                None => {
                    target = field_of(name);
                    if target.is_none() { return 0; }
                }
            }
        } else {
            let idx = if ph.kind == K_INDEX { ph.a } else { ph.pos };
            if idx >= nargs { return 0; }
            let a = argbits(idx);
            if a & 8 != 0 {
                target = field_of(NAMES4[((a >> 4) & 3) as usize]);
                if target.is_none() { return 0; }
            }
        }
        if let Some(f) = target {
            let (c0, l) = trait_sig(ph.ty);
            if wn < 6 { want[wn] = (f, c0, l); }
            wn += 1;
        }
        i += 1;
    }
    d[1] = wn as u8;
    if gn != wn { return 8; }
    let mut j = 0;
    while j < wn && j < 6 {
        if got[j] != want[j] { return 9; }
        j += 1;
    }
    0
}

/// C07 (decision half): which placeholders of the literal refer to the argument named `a` - "mentions `_variant` as a placeholder or as an
/// argument" - and whether such a placeholder carries a format specifier or a non-Display trait (then the derive must reject the attribute).
/// `format_args!` resolves a named placeholder to the explicit `name = expr` argument if there is one, else to the variable of that name; a
/// positional or implicit placeholder to the i-th argument of the list, *whether or not that argument is written with a name*.  A placeholder
/// refers to `a` when the expression it resolves to is the single identifier `a`.
///
/// Codes: 0 agree (or std rejects the literal / an index is out of range: nothing demanded);
///   5 `contains_arg` differs   6 the number of placeholders referring to `a` differs   7 modifiers / trait of one of them differ
#[no_mangle]
pub unsafe extern "C" fn probe_by_arg(ptr: *const u8, len: usize, digest: *mut u8, cfg: u32) -> u32 {
    let bytes = core::slice::from_raw_parts(ptr, len);
    let d = core::slice::from_raw_parts_mut(digest, 64);
    let (nargs, args) = build_args(cfg);
    let mut got = [(false, 0u8, 0u8); 6];
    let (contains, gn) = fmt::by_arg(syn::LitStr { ptr, len }, args, "a", &mut got);
    d[0] = contains as u8;
    d[1] = gn as u8;
    let r = reference(bytes);
    if !r.ok || r.n > MAXPH { return 0; }
    let mut want = [(false, 0u8, 0u8); 6];
    let mut wn = 0usize;
    let mut i = 0;
    while i < r.n {
        let ph = &r.ph[i];
        // the argument this placeholder resolves to: Some(k) = k-th of the list, None = the variable of that name
        let mut refers = false;
        if ph.kind == K_NAME {
            let name = &bytes[ph.a..ph.b];
            let mut explicit: Option<usize> = None;
            let mut k = 0;
            while k < nargs {
                let a = (cfg >> (2 + 4 * k)) & 15;
                if a & 1 != 0 && name.len() == 1 && name[0] == NAMES[((a >> 1) & 1) as usize] && explicit.is_none() { explicit = Some(k); }
                k += 1;
            }
            match explicit {
                Some(k) => { let a = (cfg >> (2 + 4 * k)) & 15; refers = a & 4 != 0 && (a >> 3) & 1 == 0; }
                None => refers = name.len() == 1 && name[0] == b'a',
            }
        } else {
            let idx = if ph.kind == K_INDEX { ph.a } else { ph.pos };
            if idx >= nargs { return 0; }
            let a = (cfg >> (2 + 4 * idx)) & 15;
            refers = a & 4 != 0 && (a >> 3) & 1 == 0;
        }
        if refers {
            let (c0, l) = trait_sig(ph.ty);
            if wn < 6 { want[wn] = (ph.flags != 0 || ph.ty == 2 || ph.ty == 3, c0, l); }
            wn += 1;
        }
        i += 1;
    }
    d[2] = wn as u8;
    if contains != (wn > 0) { return 5; }
    if gn != wn { return 6; }
    let mut j = 0;
    while j < wn && j < 6 {
        if got[j] != want[j] { return 7; }
        j += 1;
    }
    0
}

/// Argument forms (`cfg`), each argument being `[name =] expr`:
///   bits 0-1  number of arguments (0..=2)
///   per argument k (bits 2+4k ..): bit0 has alias, bit1 alias name (a / b), bit2 the expression is a single identifier, bit3 its name (a / b)
///
/// Disagreement codes (0 = the decision is the documented one):
///   1 the rule says "delegate", the derive does not
///   2 the rule says "do not delegate" (more than a bare placeholder, a modifier, no such argument, std rejects the literal or the
///     argument list), the derive delegates
///   3 delegates to a different expression        4 delegates under a different trait
#[no_mangle]
pub unsafe extern "C" fn probe(ptr: *const u8, len: usize, digest: *mut u8, cfg: u32) -> u32 {
    let bytes = core::slice::from_raw_parts(ptr, len);
    let d = core::slice::from_raw_parts_mut(digest, 64);
    let (nargs, args) = build_args(cfg);
    let arg0_alias: Option<u8> = if nargs >= 1 && (cfg >> 2) & 1 != 0 { Some(NAMES[((cfg >> 3) & 1) as usize]) } else { None };
    let got = fmt::decide(syn::LitStr { ptr, len }, args);

    // the documented rule over std's reading of the literal
    let r = reference(bytes);
    let bare = r.ok && r.n == 1 && r.first_start == 0 && r.first_end == len && r.ph[0].flags == 0 && r.ph[0].ty != 2 && r.ph[0].ty != 3;
    // 0 = no delegation, 1 = to the only argument, 2 = to the outer binding named by the placeholder
    let mut want = 0u8;
    if bare {
        let ph = &r.ph[0];
        if ph.kind == K_IMPLICIT {
            if nargs == 1 { want = 1; }
        } else if ph.kind == K_INDEX {
            // an index that denotes no argument is a compile error in std, never a delegation
            if nargs == 1 && ph.a == 0 { want = 1; }
        } else {
            let name = &bytes[ph.a..ph.b];
            if nargs == 0 {
                want = 2;
            } else if nargs == 1 {
                if let Some(c) = arg0_alias { if name.len() == 1 && name[0] == c { want = 1; } }
            }
        }
    }
    d[0] = want;
    d[1] = match &got { None => 0, Some((Expr::Ident(i), _)) => if i.idx == u32::MAX { 2 } else { 1 }, Some((Expr::Other(_), _)) => 1 };
    let (e, t) = match &got {
        None => return if want == 0 { 0 } else { 1 },
        Some(x) => x,
    };
    if want == 0 { return 2; }
    d[2] = t.text_len as u8;
    d[3] = if t.text_len > 0 { t.text()[0] } else { 0 };
    let same_expr = match (want, e) {
        (1, Expr::Ident(i)) => i.idx == 10,
        (1, Expr::Other(ts)) => ts.first == 10 && ts.n == 3 && ts.in_order,
        (2, Expr::Ident(i)) => i.idx == u32::MAX && i.text() == &bytes[r.ph[0].a..r.ph[0].b],
        _ => false,
    };
    if !same_expr { return 3; }
    let (c0, l) = trait_sig(r.ph[0].ty);
    if t.text_len as u8 != l || t.text()[0] != c0 { return 4; }
    0
}
