// C06, pretty (`{:#?}`) half: derive_more::Debug against std's Debug on identical definitions, executed symbolically by llsym.
// The field type `Nl` writes a symbolic short string (symbolic newline positions) in two chunks split at a symbolic point -
// that is what drives the indentation state of derive_more's `Padded` adapter (src/fmt.rs) and of std's `PadAdapter` -
// and records the formatter options it was called with.
#![allow(dead_code, unused, clippy::all)]
use core::fmt::{self, Write};

pub const CAP: usize = 256;
pub struct Sink { pub buf: [u8; CAP], pub len: usize, pub overflow: bool }
impl Sink { fn new() -> Sink { Sink { buf: [0; CAP], len: 0, overflow: false } } }
impl fmt::Write for Sink {
    fn write_str(&mut self, s: &str) -> fmt::Result {
        let b = s.as_bytes();
        let mut i = 0;
        while i < b.len() {
            if self.len < CAP { self.buf[self.len] = b[i]; self.len += 1; } else { self.overflow = true; }
            i += 1;
        }
        Ok(())
    }
}

/// what a field saw: (width+1 or 0, precision+1 or 0, flag bits)
#[derive(Clone, Copy, PartialEq, Eq)]
pub struct Seen(u32, u32, u32);
pub static mut LOG: [Seen; 8] = [Seen(0, 0, 0); 8];
pub static mut NLOG: usize = 0;

#[derive(Clone, Copy)]
pub struct Nl { pub p: *const u8, pub len: usize, pub split: usize }
impl fmt::Debug for Nl {
    fn fmt(&self, f: &mut fmt::Formatter<'_>) -> fmt::Result {
        let flags = (f.alternate() as u32) | (f.sign_plus() as u32) << 1 | (f.sign_minus() as u32) << 2 | (f.sign_aware_zero_pad() as u32) << 3
            | ((f.fill() as u32) << 8);
        unsafe {
            if NLOG < 8 { LOG[NLOG] = Seen(f.width().map_or(0, |w| w as u32 + 1), f.precision().map_or(0, |p| p as u32 + 1), flags); }
            NLOG += 1;
        }
        let s = unsafe { core::str::from_utf8_unchecked(core::slice::from_raw_parts(self.p, self.len)) };
        if self.split == self.len + 2 {
            // a third way of writing the same text: character by character through `write_char` (what `char`'s Display and hand-written impls do)
            for &b in s.as_bytes() { fmt::Write::write_char(f, b as char)?; }
            return Ok(());
        }
        let k = if self.split <= self.len { self.split } else { self.len };
        f.write_str(&s[..k])?;
        f.write_str(&s[k..])
    }
}

macro_rules! defs { ($d:path) => {
    #[derive($d)] pub struct T1(pub Nl);
    #[derive($d)] pub struct T2(pub Nl, pub Nl);
    #[derive($d)] pub struct N2 { pub a: Nl, pub b: Nl }
    #[derive($d)] pub struct Outer(pub T1, pub Nl);
    #[derive($d)] pub struct OuterN { pub t: T2, pub n: N2 }
    #[derive($d)] pub enum E { U, V(Nl), W { x: Nl }, X(Nl, Nl) }
    #[derive($d)] pub struct Unit;
    #[derive($d)] pub struct Empty();
}; }
pub mod dm {
    use super::Nl;
    defs!(derive_more::Debug);
    #[derive(derive_more::Debug)] pub struct Skip(pub Nl, #[debug(skip)] pub Nl);
    #[derive(derive_more::Debug)] pub struct SkipAll(#[debug(skip)] pub Nl);
    #[derive(derive_more::Debug)] pub struct FieldFmt(#[debug("<{_0:?}>")] pub Nl, pub Nl);
}
pub mod sd {
    use super::Nl;
    use core::fmt;
    defs!(Debug);
    pub struct Skip(pub Nl, pub Nl);
    impl fmt::Debug for Skip { fn fmt(&self, f: &mut fmt::Formatter<'_>) -> fmt::Result { f.debug_tuple("Skip").field(&self.0).finish_non_exhaustive() } }
    pub struct SkipAll(pub Nl);
    impl fmt::Debug for SkipAll { fn fmt(&self, f: &mut fmt::Formatter<'_>) -> fmt::Result { f.debug_tuple("SkipAll").finish_non_exhaustive() } }
    pub struct FieldFmt(pub Nl, pub Nl);
    impl fmt::Debug for FieldFmt { fn fmt(&self, f: &mut fmt::Formatter<'_>) -> fmt::Result { f.debug_tuple("FieldFmt").field(&format_args!("<{:?}>", self.0)).field(&self.1).finish() } }
}

fn run(v: &dyn fmt::Debug, sel: u8, w: usize, p: usize, sink: &mut Sink) -> (usize, [Seen; 8]) {
    unsafe { NLOG = 0; LOG = [Seen(0, 0, 0); 8]; }
    let r = match sel {
        0 => write!(sink, "{:#?}", v),
        1 => write!(sink, "{:#x?}", v),
        2 => write!(sink, "{:#1$?}", v, w),
        3 => write!(sink, "{:#.1$?}", v, p),
        4 => write!(sink, "{:*<+#1$.2$X?}", v, w, p),
        5 => write!(sink, "{:?}", v),
        _ => write!(sink, "{:#06?}", v),
    };
    let _ = r;
    unsafe { (NLOG, LOG) }
}

/// record layout: [shape, fmt selector, split, w, p, content bytes...]; content over {'a', 'b', '\n'}
/// return: 0 equal; 1 output bytes differ; 2 output equal but a field saw different formatter options; 3 harness (sink overflow)
#[no_mangle]
pub unsafe extern "C" fn probe(ptr: *const u8, len: usize, digest: *mut u8) -> u32 {
    let rec = core::slice::from_raw_parts(ptr, len);
    if len < 5 { return 0; }
    let shape = rec[0];
    let sel = rec[1];
    let split = rec[2] as usize;
    let w = rec[3] as usize;
    let p = rec[4] as usize;
    let content = &rec[5..];
    let half = content.len() / 2;
    let a = Nl { p: content.as_ptr(), len: half, split };
    let b = Nl { p: content.as_ptr().add(half), len: content.len() - half, split: 0 };
    let mut s1 = Sink::new();
    let mut s2 = Sink::new();
    macro_rules! both { ($mk:expr) => {{
        let x = { use dm::*; $mk };
        let r1 = run(&x, sel, w, p, &mut s1);
        let y = { use sd::*; $mk };
        let r2 = run(&y, sel, w, p, &mut s2);
        (r1, r2)
    }}; }
    let (r1, r2) = match shape {
        0 => both!(T1(a)),
        1 => both!(T2(a, b)),
        2 => both!(N2 { a: a, b: b }),
        3 => both!(Outer(T1(a), b)),
        4 => both!(OuterN { t: T2(a, b), n: N2 { a: b, b: a } }),
        5 => both!(E::V(a)),
        6 => both!(E::W { x: a }),
        7 => both!(E::X(a, b)),
        8 => both!(E::U),
        9 => both!(Skip(a, b)),
        10 => both!(SkipAll(a)),
        11 => both!(FieldFmt(a, b)),
        12 => both!(Unit),
        _ => both!(Empty()),
    };
    let d = core::slice::from_raw_parts_mut(digest, 64);
    d[0] = s1.len as u8; d[1] = s2.len as u8; d[2] = r1.0 as u8; d[3] = r2.0 as u8;
    let mut i = 0;
    while i < 56 { d[8 + i] = s1.buf[i]; i += 1; }
    if s1.overflow || s2.overflow { return 3; }
    if s1.len != s2.len { return 1; }
    let mut i = 0;
    while i < s1.len { if s1.buf[i] != s2.buf[i] { return 1; } i += 1; }
    if r1.0 != r2.0 { return 2; }
    let mut i = 0;
    while i < 8 { if r1.1[i] != r2.1[i] { return 2; } i += 1; }
    0
}
