// Grammar oracle for C16: where does Rust's expression grammar separate the arguments of `format_args!`?
//
// A recogniser for lists `[name =] expr , [name =] expr , ...` over the token-tree alphabet of tokens.rs, written as plain
// loop-and-index recursive descent that follows syn 2's `full` expression / type / path / pattern parsers function by
// function (the places are named in the comments), including syn's rules for multi-character punctuation: a token such as
// `<=` is seen where its first character is Joint and the next punct is `=`; a one-character token is seen whatever the
// spacing.  It is trusted base, so it is pinned against the real `syn::Expr` parser by scan/validator on every lexer sequence
// up to a length bound.
//
// Domain: `lexer_seq` sequences in which `:` occurs only as `::` (a lone `:` - closure parameter types, associated-type
// bounds - is outside the alphabet of the C16 claim; see `c16_seq`).
use crate::tokens::*;

#[derive(Clone, Copy, PartialEq, Eq)]
pub struct OArg {
    pub alias: bool,
    pub is_ident: bool,
    pub first: u8,
    pub end: u8,
}

const MAXTT: usize = 40;
const MAXDEPTH: u32 = 64;

struct P<'a> {
    t: &'a [Tt],
    n: usize,
    i: usize,
    depth: u32,
    /// features of the accepted parse that name the known weaknesses of the scanner (F_*)
    flags: u8,
}

/// a binary operator starting with `|` (`|`, `||`, `|=`) was consumed
pub const F_BINARY_PIPE: u8 = 1;
/// generic arguments `<..., ...>` containing a comma were consumed where no `::` precedes the `<` (type position: after `as`, inside a qualified self)
pub const F_TYPE_ANGLE_COMMA: u8 = 2;
/// a binary operator starting with `<` (`<`, `<=`, `<<`, `<<=`) was consumed
pub const F_BINARY_LT: u8 = 4;

// syn::Precedence
const P_MIN: u8 = 0;
const P_ASSIGN: u8 = 1;
const P_RANGE: u8 = 2;
const P_OR: u8 = 3;
const P_AND: u8 = 4;
const P_COMPARE: u8 = 6;
const P_BITOR: u8 = 7;
const P_BITAND: u8 = 9;
const P_SHIFT: u8 = 10;
const P_SUM: u8 = 11;
const P_CAST: u8 = 13;

/// what the expression parsed so far is, as far as syn's grammar restrictions care
#[derive(Clone, Copy, PartialEq, Eq)]
enum Lhs {
    Plain,
    /// a binary expression whose operator is a comparison (cannot be chained)
    Compare,
    /// a range expression (cannot be the left-hand side of anything, takes no `.` / `?` trailer)
    Range,
}

/// in which sequences does `:` occur only as the two halves of `::`?
pub fn c16_seq(ts: &[Tt]) -> bool {
    let mut i = 0;
    while i < ts.len() {
        if ts[i].kind == K_PUNCT && ts[i].ch == b':' {
            if !(ts[i].joint && i + 1 < ts.len() && ts[i + 1].kind == K_PUNCT && ts[i + 1].ch == b':') {
                return false;
            }
            i += 2;
        } else {
            i += 1;
        }
    }
    true
}

impl<'a> P<'a> {
    #[inline]
    fn at(&self, k: usize) -> Option<Tt> {
        if self.i + k < self.n {
            Some(self.t[self.i + k])
        } else {
            None
        }
    }
    /// syn's peek_punct for a one-character token: the spacing does not matter
    fn peek_p1(&self, k: usize, c: u8) -> bool {
        matches!(self.at(k), Some(t) if t.kind == K_PUNCT && t.ch == c)
    }
    /// ... for a two-character token: the first must be Joint
    fn peek_p2(&self, k: usize, c1: u8, c2: u8) -> bool {
        matches!(self.at(k), Some(t) if t.kind == K_PUNCT && t.ch == c1 && t.joint) && self.peek_p1(k + 1, c2)
    }
    /// ... for a three-character token: the first two must be Joint
    fn peek_p3(&self, k: usize, c1: u8, c2: u8, c3: u8) -> bool {
        matches!(self.at(k), Some(t) if t.kind == K_PUNCT && t.ch == c1 && t.joint) && self.peek_p2(k + 1, c2, c3)
    }
    fn peek_ident(&self, k: usize) -> bool {
        matches!(self.at(k), Some(t) if t.kind == K_IDENT && !t.keyword)
    }
    fn peek_as(&self, k: usize) -> bool {
        matches!(self.at(k), Some(t) if t.kind == K_IDENT && t.keyword)
    }
    fn peek_lit(&self, k: usize) -> bool {
        matches!(self.at(k), Some(t) if t.kind == K_LIT)
    }
    /// syn's `Lit` peek also accepts `-` followed by a literal
    fn peek_lit_neg(&self, k: usize) -> usize {
        if self.peek_lit(k) {
            1
        } else if self.peek_p1(k, b'-') && self.peek_lit(k + 1) {
            2
        } else {
            0
        }
    }
    fn peek_group(&self, k: usize, open: u8) -> bool {
        matches!(self.at(k), Some(t) if t.kind == K_GROUP && t.ch == open)
    }
    fn eat_p1(&mut self, c: u8) -> bool {
        if self.peek_p1(0, c) {
            self.i += 1;
            true
        } else {
            false
        }
    }
    fn eat_p2(&mut self, c1: u8, c2: u8) -> bool {
        if self.peek_p2(0, c1, c2) {
            self.i += 2;
            true
        } else {
            false
        }
    }
    fn enter(&mut self) -> bool {
        self.depth += 1;
        self.depth <= MAXDEPTH
    }

    // ------------------------------------------------------------------ expressions (expr.rs)

    /// BinOp::parse (op.rs), in its order, restricted to the alphabet: (precedence, token trees consumed, flag of its first character)
    fn peek_binop(&self) -> Option<(u8, usize, u8)> {
        if self.peek_p2(0, b'-', b'=') {
            return Some((P_ASSIGN, 2, 0));
        }
        if self.peek_p2(0, b'&', b'=') {
            return Some((P_ASSIGN, 2, 0));
        }
        if self.peek_p2(0, b'|', b'=') {
            return Some((P_ASSIGN, 2, F_BINARY_PIPE));
        }
        if self.peek_p3(0, b'<', b'<', b'=') {
            return Some((P_ASSIGN, 3, F_BINARY_LT));
        }
        if self.peek_p3(0, b'>', b'>', b'=') {
            return Some((P_ASSIGN, 3, 0));
        }
        if self.peek_p2(0, b'&', b'&') {
            return Some((P_AND, 2, 0));
        }
        if self.peek_p2(0, b'|', b'|') {
            return Some((P_OR, 2, F_BINARY_PIPE));
        }
        if self.peek_p2(0, b'<', b'<') {
            return Some((P_SHIFT, 2, F_BINARY_LT));
        }
        if self.peek_p2(0, b'>', b'>') {
            return Some((P_SHIFT, 2, 0));
        }
        if self.peek_p2(0, b'=', b'=') {
            return Some((P_COMPARE, 2, 0));
        }
        if self.peek_p2(0, b'<', b'=') {
            return Some((P_COMPARE, 2, F_BINARY_LT));
        }
        if self.peek_p2(0, b'!', b'=') {
            return Some((P_COMPARE, 2, 0));
        }
        if self.peek_p2(0, b'>', b'=') {
            return Some((P_COMPARE, 2, 0));
        }
        if self.peek_p1(0, b'-') {
            return Some((P_SUM, 1, 0));
        }
        if self.peek_p1(0, b'&') {
            return Some((P_BITAND, 1, 0));
        }
        if self.peek_p1(0, b'|') {
            return Some((P_BITOR, 1, F_BINARY_PIPE));
        }
        if self.peek_p1(0, b'<') {
            return Some((P_COMPARE, 1, F_BINARY_LT));
        }
        if self.peek_p1(0, b'>') {
            return Some((P_COMPARE, 1, 0));
        }
        None
    }
    fn peek_assign(&self) -> bool {
        self.peek_p1(0, b'=') && !self.peek_p2(0, b'=', b'>')
    }
    fn peek_dotdot(&self, k: usize) -> bool {
        self.peek_p2(k, b'.', b'.')
    }
    fn peek_precedence(&self) -> u8 {
        if let Some((p, _, _)) = self.peek_binop() {
            p
        } else if self.peek_assign() {
            P_ASSIGN
        } else if self.peek_dotdot(0) {
            P_RANGE
        } else if self.peek_as(0) {
            P_CAST
        } else {
            P_MIN
        }
    }
    /// ambiguous_expr
    fn expr(&mut self) -> bool {
        if !self.enter() {
            return false;
        }
        let ok = match self.unary() {
            Some(lhs) => self.parse_expr(lhs, P_MIN).is_some(),
            None => false,
        };
        self.depth -= 1;
        ok
    }
    /// parse_expr (full)
    fn parse_expr(&mut self, mut lhs: Lhs, base: u8) -> Option<Lhs> {
        loop {
            if lhs == Lhs::Range {
                // a range cannot be the left-hand side of another binary operator
                break;
            } else if let Some((prec, len, flag)) = self.peek_binop() {
                if prec < base {
                    break;
                }
                if prec == P_COMPARE && lhs == Lhs::Compare {
                    return None; // comparison operators cannot be chained
                }
                self.flags |= flag;
                self.i += len;
                self.binop_rhs(prec)?;
                lhs = if prec == P_COMPARE { Lhs::Compare } else { Lhs::Plain };
            } else if P_ASSIGN >= base && self.peek_assign() {
                self.i += 1;
                self.binop_rhs(P_ASSIGN)?;
                lhs = Lhs::Plain;
            } else if P_RANGE >= base && self.peek_dotdot(0) {
                let closed = self.range_limits()?;
                self.range_end(closed)?;
                lhs = Lhs::Range;
            } else if P_CAST >= base && self.peek_as(0) {
                self.i += 1;
                if !self.ty() {
                    return None;
                }
                // check_cast
                if (self.peek_p1(0, b'.') && !self.peek_dotdot(0)) || self.peek_group(0, b'(') || self.peek_group(0, b'[') {
                    return None;
                }
                lhs = Lhs::Plain;
            } else {
                break;
            }
        }
        Some(lhs)
    }
    /// RangeLimits::parse, positioned at `..`: Some(closed)
    fn range_limits(&mut self) -> Option<bool> {
        if self.peek_p3(0, b'.', b'.', b'=') {
            self.i += 3;
            Some(true)
        } else if self.peek_p3(0, b'.', b'.', b'.') {
            None
        } else {
            self.i += 2;
            Some(false)
        }
    }
    /// parse_range_end
    fn range_end(&mut self, closed: bool) -> Option<()> {
        if !closed
            && (self.i >= self.n
                || self.peek_p1(0, b',')
                || (self.peek_p1(0, b'.') && !self.peek_dotdot(0))
                || self.peek_p2(0, b'=', b'>')
                || self.peek_p1(0, b'=')
                || self.peek_p1(0, b'>')
                || self.peek_p2(0, b'<', b'=')
                || self.peek_p2(0, b'!', b'=')
                || self.peek_p2(0, b'-', b'=')
                || self.peek_p2(0, b'&', b'=')
                || self.peek_p2(0, b'|', b'=')
                || self.peek_p3(0, b'<', b'<', b'=')
                || self.peek_as(0))
        {
            return Some(());
        }
        self.binop_rhs(P_RANGE)
    }
    /// parse_binop_rhs
    fn binop_rhs(&mut self, prec: u8) -> Option<()> {
        let mut rhs = self.unary()?;
        loop {
            let next = self.peek_precedence();
            if next > prec || (next == prec && prec == P_ASSIGN) {
                let before = self.i;
                rhs = self.parse_expr(rhs, next)?;
                if self.i == before {
                    break;
                }
            } else {
                break;
            }
        }
        Some(())
    }
    /// unary_expr: `&` reference, `!` / `-` (the prefix operators of the alphabet), else trailer_expr
    fn unary(&mut self) -> Option<Lhs> {
        if !self.enter() {
            return None;
        }
        let r = if self.peek_p1(0, b'&') || self.peek_p1(0, b'!') || self.peek_p1(0, b'-') {
            self.i += 1;
            self.unary().map(|_| Lhs::Plain)
        } else {
            match self.atom() {
                Some(a) => self.trailer(a),
                None => None,
            }
        };
        self.depth -= 1;
        r
    }
    /// trailer_helper: calls, fields, method calls (with turbofish), indexing
    fn trailer(&mut self, mut e: Lhs) -> Option<Lhs> {
        loop {
            if self.peek_group(0, b'(') {
                self.i += 1;
                e = Lhs::Plain;
            } else if self.peek_p1(0, b'.') && !self.peek_dotdot(0) && e != Lhs::Range {
                self.i += 1;
                if self.peek_lit(0) {
                    // Member::Unnamed
                    self.i += 1;
                    e = Lhs::Plain;
                    continue;
                }
                if !self.peek_ident(0) {
                    return None;
                }
                self.i += 1;
                let mut turbofish = false;
                if self.peek_p2(0, b':', b':') {
                    self.i += 2;
                    if !self.angle_args() {
                        return None;
                    }
                    turbofish = true;
                }
                if turbofish || self.peek_group(0, b'(') {
                    // method call: parenthesized!(content in input)
                    if !self.peek_group(0, b'(') {
                        return None;
                    }
                    self.i += 1;
                }
                e = Lhs::Plain;
            } else if self.peek_group(0, b'[') {
                // ExprIndex: the bracket content must be ONE expression; the alphabet's `[a, a]` is not
                return None;
            } else {
                return Some(e);
            }
        }
    }
    /// atom_expr
    fn atom(&mut self) -> Option<Lhs> {
        if self.peek_lit(0) {
            self.i += 1;
            return Some(Lhs::Plain);
        }
        if self.peek_p1(0, b'|') {
            return if self.closure() { Some(Lhs::Plain) } else { None };
        }
        if self.peek_ident(0) || self.peek_p2(0, b':', b':') || self.peek_p1(0, b'<') {
            // path_or_macro_or_struct
            let (qself, mod_style) = self.qpath_info(true)?;
            if !qself && self.peek_p1(0, b'!') && !self.peek_p2(0, b'!', b'=') && mod_style {
                // macro invocation: `!` then any delimiter
                self.i += 1;
                return if self.eat_any_group() { Some(Lhs::Plain) } else { None };
            }
            if self.peek_group(0, b'{') {
                self.i += 1; // struct literal `a { a }`
            }
            return Some(Lhs::Plain);
        }
        if self.peek_group(0, b'(') || self.peek_group(0, b'{') || self.peek_group(0, b'[') {
            self.i += 1;
            return Some(Lhs::Plain);
        }
        if self.peek_dotdot(0) {
            // expr_range
            let closed = self.range_limits()?;
            self.range_end(closed)?;
            return Some(Lhs::Range);
        }
        None
    }
    fn eat_any_group(&mut self) -> bool {
        if matches!(self.at(0), Some(t) if t.kind == K_GROUP) {
            self.i += 1;
            true
        } else {
            false
        }
    }
    /// expr_closure
    fn closure(&mut self) -> bool {
        if !self.eat_p1(b'|') {
            return false;
        }
        loop {
            if self.peek_p1(0, b'|') {
                break;
            }
            if !self.pat() {
                return false;
            }
            // closure_arg: `: Type` needs a lone `:`, which is outside the domain (c16_seq)
            if self.peek_p1(0, b'|') {
                break;
            }
            if !self.eat_p1(b',') {
                return false;
            }
        }
        if !self.eat_p1(b'|') {
            return false;
        }
        if self.peek_p2(0, b'-', b'>') {
            self.i += 2;
            if !self.ty() {
                return false;
            }
            // body: Block
            if !self.peek_group(0, b'{') {
                return false;
            }
            self.i += 1;
            true
        } else {
            self.expr()
        }
    }

    // ------------------------------------------------------------------ patterns (pat.rs: Pat::parse_single)
    fn pat(&mut self) -> bool {
        if !self.enter() {
            return false;
        }
        let ok = self.pat_inner();
        self.depth -= 1;
        ok
    }
    fn pat_inner(&mut self) -> bool {
        if (self.peek_ident(0)
            && (self.peek_p2(1, b':', b':') || self.peek_p1(1, b'!') || self.peek_group(1, b'{') || self.peek_group(1, b'(') || self.peek_dotdot(1)))
            || self.peek_p2(0, b':', b':')
            || self.peek_p1(0, b'<')
        {
            // pat_path_or_macro_or_struct_or_range
            let (qself, mod_style) = match self.qpath_info(true) {
                Some(x) => x,
                None => return false,
            };
            if !qself && self.peek_p1(0, b'!') && !self.peek_p2(0, b'!', b'=') && mod_style {
                self.i += 1;
                return self.eat_any_group();
            }
            if self.peek_group(0, b'{') || self.peek_group(0, b'(') {
                self.i += 1;
                return true;
            }
            if self.peek_dotdot(0) {
                return self.pat_range_rest(true);
            }
            return true;
        }
        if self.peek_p1(0, b'-') || self.peek_lit(0) {
            // pat_lit_or_range
            match self.pat_range_bound() {
                Some(true) => {}
                _ => return false,
            }
            if self.peek_dotdot(0) {
                return self.pat_range_rest(true);
            }
            return true;
        }
        if self.peek_ident(0) {
            // pat_ident (no `@` in the alphabet)
            self.i += 1;
            return true;
        }
        if self.peek_p1(0, b'&') {
            // pat_reference
            self.i += 1;
            return self.pat();
        }
        if self.peek_group(0, b'(') || self.peek_group(0, b'[') {
            self.i += 1;
            return true;
        }
        if self.peek_dotdot(0) && !self.peek_p3(0, b'.', b'.', b'.') {
            // pat_range_half_open: RangeLimits::parse, then an optional bound; `..` alone is a rest pattern
            let closed = if self.peek_p3(0, b'.', b'.', b'=') {
                self.i += 3;
                true
            } else {
                self.i += 2;
                false
            };
            return match self.pat_range_bound() {
                Some(true) => true,
                Some(false) => !closed,
                None => false,
            };
        }
        false
    }
    /// RangeLimits::parse_obsolete (`..=`, `...`, `..`) then pat_range_bound; a closed range needs its upper bound
    fn pat_range_rest(&mut self, _has_start: bool) -> bool {
        let closed = if self.peek_p3(0, b'.', b'.', b'=') || self.peek_p3(0, b'.', b'.', b'.') {
            self.i += 3;
            true
        } else {
            self.i += 2;
            false
        };
        match self.pat_range_bound() {
            Some(true) => true,
            Some(false) => !closed,
            None => false,
        }
    }
    /// pat_range_bound: Some(true) a bound was parsed, Some(false) there is none, None error
    fn pat_range_bound(&mut self) -> Option<bool> {
        if self.i >= self.n || self.peek_p1(0, b'|') || self.peek_p1(0, b'=') || self.peek_p1(0, b',') {
            // (a lone `:` would also end the bound; it is outside the domain)
            return Some(false);
        }
        let l = self.peek_lit_neg(0);
        if l > 0 {
            self.i += l;
            return Some(true);
        }
        if self.peek_ident(0) || self.peek_p2(0, b':', b':') || self.peek_p1(0, b'<') {
            // ExprPath::parse
            return if self.qpath(true) { Some(true) } else { None };
        }
        None
    }

    // ------------------------------------------------------------------ paths and types (path.rs, ty.rs)

    fn qpath(&mut self, expr_style: bool) -> bool {
        self.qpath_info(expr_style).is_some()
    }
    /// path::parsing::qpath; returns (has a qualified self, path is mod-style i.e. no segment has generic arguments)
    fn qpath_info(&mut self, expr_style: bool) -> Option<(bool, bool)> {
        if !self.enter() {
            return None;
        }
        let r = self.qpath_inner(expr_style);
        self.depth -= 1;
        r
    }
    fn qpath_inner(&mut self, expr_style: bool) -> Option<(bool, bool)> {
        if self.peek_p1(0, b'<') {
            self.i += 1;
            if !self.ty() {
                return None;
            }
            if self.peek_as(0) {
                self.i += 1;
                // Path::parse (not expr style)
                self.path(false)?;
            }
            if !self.eat_p1(b'>') {
                return None;
            }
            if !self.eat_p2(b':', b':') {
                return None;
            }
            let mut mod_style = true;
            loop {
                if self.segment(expr_style)? {
                    mod_style = false;
                }
                if !self.peek_p2(0, b':', b':') {
                    break;
                }
                self.i += 2;
            }
            Some((true, mod_style))
        } else {
            self.path(expr_style).map(|m| (false, m))
        }
    }
    /// Path::parse_helper + parse_rest; Some(mod_style)
    fn path(&mut self, expr_style: bool) -> Option<bool> {
        if self.peek_p2(0, b':', b':') {
            self.i += 2;
        }
        let mut mod_style = !self.segment(expr_style)?;
        // parse_rest: `::` not followed (peek3) by a paren group
        while self.peek_p2(0, b':', b':') && !self.peek_group(2, b'(') {
            self.i += 2;
            if self.segment(expr_style)? {
                mod_style = false;
            }
        }
        Some(mod_style)
    }
    /// PathSegment::parse_helper; Some(has generic arguments)
    fn segment(&mut self, expr_style: bool) -> Option<bool> {
        if !self.peek_ident(0) {
            return None;
        }
        self.i += 1;
        if (!expr_style && self.peek_p1(0, b'<') && !self.peek_p2(0, b'<', b'=') && !self.peek_p3(0, b'<', b'<', b'='))
            || (self.peek_p2(0, b':', b':') && self.peek_p1(2, b'<'))
        {
            // AngleBracketedGenericArguments::parse: optional `::`
            if self.peek_p2(0, b':', b':') {
                self.i += 2;
            }
            return if self.angle_args() { Some(true) } else { None };
        }
        Some(false)
    }
    /// AngleBracketedGenericArguments::do_parse, positioned at `<`
    fn angle_args(&mut self) -> bool {
        let turbofish = self.i >= 2 && self.t[self.i - 2].kind == K_PUNCT && self.t[self.i - 2].ch == b':' && self.t[self.i - 2].joint
            && self.t[self.i - 1].kind == K_PUNCT && self.t[self.i - 1].ch == b':';
        if !self.eat_p1(b'<') {
            return false;
        }
        loop {
            if self.peek_p1(0, b'>') {
                break;
            }
            if !self.generic_argument() {
                return false;
            }
            if self.peek_p1(0, b'>') {
                break;
            }
            if !self.eat_p1(b',') {
                return false;
            }
            if !turbofish {
                self.flags |= F_TYPE_ANGLE_COMMA;
            }
        }
        self.eat_p1(b'>')
    }
    /// GenericArgument::parse
    fn generic_argument(&mut self) -> bool {
        let l = self.peek_lit_neg(0);
        if l > 0 {
            self.i += l;
            return true;
        }
        if self.peek_group(0, b'{') {
            self.i += 1;
            return true;
        }
        let start = self.i;
        if !self.ty() {
            return false;
        }
        // `ident [<args>] = ...`: an associated type / const binding, only after a one-segment path type without leading `::`
        if self.one_segment_path(start) {
            if self.peek_p1(0, b'=') {
                self.i += 1;
                let l = self.peek_lit_neg(0);
                if l > 0 {
                    self.i += l;
                    return true;
                }
                if self.peek_group(0, b'{') {
                    self.i += 1;
                    return true;
                }
                return self.ty();
            }
            if self.peek_p1(0, b':') {
                // Option<Token![:]> takes the first half of a `::` left over before a paren group; the bound that must follow cannot start with `:`
                return false;
            }
        }
        true
    }
    /// was tts[start..i] a type of the form `ident` or `ident<...>` (optionally `ident::<...>`)?
    fn one_segment_path(&self, start: usize) -> bool {
        let t = self.t;
        if !(start < self.i && t[start].kind == K_IDENT && !t[start].keyword) {
            return false;
        }
        if self.i == start + 1 {
            return true;
        }
        // ident followed by one balanced <...> (with or without `::`) that ends exactly at i
        let mut k = start + 1;
        if k + 1 < self.i && t[k].kind == K_PUNCT && t[k].ch == b':' && t[k].joint && t[k + 1].kind == K_PUNCT && t[k + 1].ch == b':' {
            k += 2;
        }
        if !(k < self.i && t[k].kind == K_PUNCT && t[k].ch == b'<') {
            return false;
        }
        // the type parser consumed exactly tts[start..i]; a one-segment path is `ident <args>` where the `<` at k closes at i-1.
        // Angle brackets inside the arguments nest (closure-free token level: every `<` consumed as generic-argument opener or
        // qualified-self opener is matched by a `>`), and `->` does not occur in the types of the alphabet.
        let mut depth = 0i32;
        while k < self.i {
            if t[k].kind == K_PUNCT && t[k].ch == b'<' {
                depth += 1;
            } else if t[k].kind == K_PUNCT && t[k].ch == b'>' {
                depth -= 1;
                if depth == 0 {
                    return k + 1 == self.i;
                }
            }
            k += 1;
        }
        false
    }
    /// ty::parsing::ambig_ty restricted to the alphabet
    fn ty(&mut self) -> bool {
        if !self.enter() {
            return false;
        }
        let ok = if self.peek_group(0, b'(') {
            self.i += 1; // tuple type `(a, a)`
            true
        } else if self.peek_ident(0) || self.peek_p2(0, b':', b':') || self.peek_p1(0, b'<') {
            match self.qpath_info(false) {
                None => false,
                Some((qself, mod_style)) => {
                    if !qself && self.peek_p1(0, b'!') && !self.peek_p2(0, b'!', b'=') && mod_style {
                        // TypeMacro
                        self.i += 1;
                        self.eat_any_group()
                    } else {
                        true
                    }
                }
            }
        } else if self.peek_p1(0, b'&') {
            // TypeReference (no lifetime, no `mut` in the alphabet)
            self.i += 1;
            self.ty()
        } else if self.peek_p1(0, b'!') {
            self.i += 1; // never type
            true
        } else {
            // `[a, a]` is neither a slice nor an array type; `{ a }`, literals and other punctuation start no type
            false
        };
        self.depth -= 1;
        ok
    }
}

/// `[name =] expr (, [name =] expr)* [,]` - None if the tokens are not such a list in Rust's grammar (or outside the domain)
pub fn expr_list(tts: &[Tt], out: &mut [OArg; 8], flags: &mut u8) -> Option<usize> {
    if tts.len() > MAXTT || !c16_seq(tts) {
        return None;
    }
    let mut p = P { t: tts, n: tts.len(), i: 0, depth: 0, flags: 0 };
    let mut n = 0usize;
    loop {
        if p.i >= p.n {
            break;
        }
        let first = p.i;
        // format_args!: `ident = expr` is a named argument when the token after the identifier is exactly `=` (not `==`, not `=>`)
        let alias = p.peek_ident(0) && p.peek_p1(1, b'=') && !p.peek_p2(1, b'=', b'=') && !p.peek_p2(1, b'=', b'>');
        if alias {
            p.i += 2;
        }
        let estart = p.i;
        p.depth = 0;
        if !p.expr() {
            return None;
        }
        let is_ident = p.i == estart + 1 && p.t[estart].kind == K_IDENT && !p.t[estart].keyword;
        if n < 8 {
            out[n] = OArg { alias, is_ident, first: first as u8, end: p.i as u8 };
        }
        n += 1;
        if p.i >= p.n {
            break;
        }
        if !p.eat_p1(b',') {
            return None;
        }
    }
    *flags = p.flags;
    Some(n)
}
