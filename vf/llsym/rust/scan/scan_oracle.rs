// Grammar oracle for C16: where does Rust's expression grammar separate the arguments of `format_args!`?
//
// A recogniser for lists `[name =] expr , [name =] expr , ...` over the token-tree alphabet of tokens.rs, written as plain
// loop-and-index recursive descent that follows syn 2's `full` expression / type / path / pattern parsers function by
// function (the places are named in the comments).  It is trusted base, so it is pinned against the real
// `syn::Expr` parser by scan/validator on every token sequence up to a length bound.
use crate::tokens::*;

#[derive(Clone, Copy, PartialEq, Eq)]
pub struct OArg {
    pub alias: bool,
    pub is_ident: bool,
    pub first: u8,
    pub end: u8,
}

const MAXTT: usize = 40;

struct P<'a> {
    t: &'a [Tt],
    n: usize,
    i: usize,
    depth: u32,
    /// features of the accepted parse that name the known weaknesses of the scanner (F_*)
    flags: u8,
}

/// a `|` or `||` was consumed as a binary operator
pub const F_BINARY_PIPE: u8 = 1;
/// generic arguments `<..., ...>` containing a comma were consumed where no `::` precedes the `<` (type position: after `as`, inside a qualified self)
pub const F_TYPE_ANGLE_COMMA: u8 = 2;

// precedence levels of syn::Precedence that can occur with this alphabet
const P_MIN: u8 = 0;
const P_ASSIGN: u8 = 1;
const P_OR: u8 = 3;
const P_COMPARE: u8 = 6;
const P_BITOR: u8 = 7;
const P_BITAND: u8 = 9;
const P_SHIFT: u8 = 10;
const P_SUM: u8 = 11;
const P_CAST: u8 = 13;

#[derive(Clone, Copy, PartialEq, Eq)]
enum Lhs {
    Plain,
    Compare,
}

impl<'a> P<'a> {
    #[inline]
    fn at(&self, k: usize) -> Option<Tt> {
        if self.i + k < self.n {
            Some(self.t[self.i + k])
        } else {
            None
        }
    }
    /// syn's peek_punct: every char but the last must be Joint
    fn peek_p1(&self, k: usize, c: u8) -> bool {
        matches!(self.at(k), Some(t) if t.kind == K_PUNCT && t.ch == c)
    }
    fn peek_p2(&self, k: usize, c1: u8, c2: u8) -> bool {
        matches!(self.at(k), Some(t) if t.kind == K_PUNCT && t.ch == c1 && t.joint) && self.peek_p1(k + 1, c2)
    }
    fn peek_ident(&self, k: usize) -> bool {
        matches!(self.at(k), Some(t) if t.kind == K_IDENT && !t.keyword)
    }
    fn peek_as(&self, k: usize) -> bool {
        matches!(self.at(k), Some(t) if t.kind == K_IDENT && t.keyword)
    }
    fn peek_lit(&self, k: usize) -> bool {
        matches!(self.at(k), Some(t) if t.kind == K_LIT)
    }
    fn peek_group(&self, k: usize, open: u8) -> bool {
        matches!(self.at(k), Some(t) if t.kind == K_GROUP && t.ch == open)
    }
    /// Token![x]::parse for a single-char punct: takes one punct whatever its spacing
    fn eat_p1(&mut self, c: u8) -> bool {
        if self.peek_p1(0, c) {
            self.i += 1;
            true
        } else {
            false
        }
    }
    fn eat_p2(&mut self, c1: u8, c2: u8) -> bool {
        if self.peek_p2(0, c1, c2) {
            self.i += 2;
            true
        } else {
            false
        }
    }

    // ------------------------------------------------------------------ expressions (expr.rs)

    /// BinOp::parse (op.rs) restricted to the alphabet: (precedence, token trees consumed)
    fn peek_binop(&self) -> Option<(u8, usize)> {
        if self.peek_p2(0, b'|', b'|') {
            return Some((P_OR, 2));
        }
        if self.peek_p2(0, b'>', b'>') {
            return Some((P_SHIFT, 2));
        }
        if self.peek_p2(0, b'=', b'=') {
            return Some((P_COMPARE, 2));
        }
        // `-` also matches the first char of `->`, `|` that of nothing else here, `<` / `>` single
        if self.peek_p1(0, b'-') {
            return Some((P_SUM, 1));
        }
        if self.peek_p1(0, b'&') {
            return Some((P_BITAND, 1));
        }
        if self.peek_p1(0, b'|') {
            return Some((P_BITOR, 1));
        }
        if self.peek_p1(0, b'<') {
            return Some((P_COMPARE, 1));
        }
        if self.peek_p1(0, b'>') {
            return Some((P_COMPARE, 1));
        }
        None
    }
    fn peek_precedence(&self) -> u8 {
        if let Some((p, _)) = self.peek_binop() {
            p
        } else if self.peek_p1(0, b'=') {
            P_ASSIGN
        } else if self.peek_as(0) {
            P_CAST
        } else {
            P_MIN
        }
    }
    /// ambiguous_expr
    fn expr(&mut self) -> bool {
        self.depth += 1;
        if self.depth > 24 {
            return false;
        }
        let ok = self.unary() && self.parse_expr(Lhs::Plain, P_MIN).is_some();
        self.depth -= 1;
        ok
    }
    /// parse_expr (full)
    fn parse_expr(&mut self, mut lhs: Lhs, base: u8) -> Option<Lhs> {
        loop {
            if let Some((prec, len)) = self.peek_binop() {
                if prec < base {
                    break;
                }
                if prec == P_COMPARE && lhs == Lhs::Compare {
                    return None; // comparison operators cannot be chained
                }
                if prec == P_OR || prec == P_BITOR {
                    self.flags |= F_BINARY_PIPE;
                }
                self.i += len;
                self.binop_rhs(prec)?;
                lhs = if prec == P_COMPARE { Lhs::Compare } else { Lhs::Plain };
            } else if P_ASSIGN >= base && self.peek_p1(0, b'=') {
                self.i += 1;
                self.binop_rhs(P_ASSIGN)?;
                lhs = Lhs::Plain;
            } else if P_CAST >= base && self.peek_as(0) {
                self.i += 1;
                if !self.ty() {
                    return None;
                }
                // check_cast
                if self.peek_p1(0, b'.') || self.peek_group(0, b'(') || self.peek_group(0, b'[') {
                    return None;
                }
                lhs = Lhs::Plain;
            } else {
                break;
            }
        }
        Some(lhs)
    }
    /// parse_binop_rhs
    fn binop_rhs(&mut self, prec: u8) -> Option<()> {
        if !self.unary() {
            return None;
        }
        let mut rhs = Lhs::Plain;
        loop {
            let next = self.peek_precedence();
            if next > prec || (next == prec && prec == P_ASSIGN) {
                let before = self.i;
                rhs = self.parse_expr(rhs, next)?;
                if self.i == before {
                    break;
                }
            } else {
                break;
            }
        }
        Some(())
    }
    /// unary_expr: `-` (the only prefix operator of the alphabet), else trailer_expr
    fn unary(&mut self) -> bool {
        self.depth += 1;
        if self.depth > 24 {
            return false;
        }
        let ok = if self.peek_p1(0, b'-') || self.peek_p1(0, b'&') || self.peek_p1(0, b'!') {
            self.i += 1;
            self.unary()
        } else {
            self.atom() && self.trailer()
        };
        self.depth -= 1;
        ok
    }
    /// trailer_helper: calls, fields, method calls (with turbofish)
    fn trailer(&mut self) -> bool {
        loop {
            if self.peek_group(0, b'(') {
                self.i += 1;
            } else if self.peek_group(0, b'[') {
                // ExprIndex: the bracket content must be ONE expression; the alphabet's `[a, a]` is not
                return false;
            } else if self.peek_p1(0, b'.') {
                self.i += 1;
                if self.peek_lit(0) {
                    // Member::Unnamed
                    self.i += 1;
                    continue;
                }
                if !self.peek_ident(0) {
                    return false;
                }
                self.i += 1;
                let mut turbofish = false;
                if self.peek_p2(0, b':', b':') {
                    self.i += 2;
                    if !self.angle_args() {
                        return false;
                    }
                    turbofish = true;
                }
                if turbofish || self.peek_group(0, b'(') {
                    // method call: parenthesized!(content in input)
                    if !self.peek_group(0, b'(') {
                        return false;
                    }
                    self.i += 1;
                }
            } else {
                return true;
            }
        }
    }
    /// atom_expr
    fn atom(&mut self) -> bool {
        if self.peek_lit(0) {
            self.i += 1;
            return true;
        }
        if self.peek_p1(0, b'|') {
            return self.closure();
        }
        if self.peek_ident(0) || self.peek_p2(0, b':', b':') || self.peek_p1(0, b'<') {
            // path_or_macro_or_struct
            let (qself, mod_style) = match self.qpath_info(true) {
                Some(x) => x,
                None => return false,
            };
            if !qself && mod_style && self.peek_p1(0, b'!') {
                // macro invocation: `!` then any delimiter
                self.i += 1;
                return self.eat_any_group();
            }
            if self.peek_group(0, b'{') {
                self.i += 1; // struct literal `a { a }`
            }
            return true;
        }
        if self.peek_group(0, b'(') || self.peek_group(0, b'{') || self.peek_group(0, b'[') {
            self.i += 1;
            return true;
        }
        false
    }
    fn eat_any_group(&mut self) -> bool {
        if matches!(self.at(0), Some(t) if t.kind == K_GROUP) {
            self.i += 1;
            true
        } else {
            false
        }
    }
    /// expr_closure
    fn closure(&mut self) -> bool {
        if !self.eat_p1(b'|') {
            return false;
        }
        loop {
            if self.peek_p1(0, b'|') {
                break;
            }
            if !self.pat() {
                return false;
            }
            if self.peek_p1(0, b'|') {
                break;
            }
            if !self.eat_p1(b',') {
                return false;
            }
        }
        if !self.eat_p1(b'|') {
            return false;
        }
        if self.peek_p2(0, b'-', b'>') {
            self.i += 2;
            if !self.ty() {
                return false;
            }
            // body: Block
            if !self.peek_group(0, b'{') {
                return false;
            }
            self.i += 1;
            true
        } else {
            self.expr()
        }
    }

    // ------------------------------------------------------------------ patterns (pat.rs: Pat::parse_single)
    fn pat(&mut self) -> bool {
        if self.peek_ident(0) && !(self.peek_p2(1, b':', b':') || self.peek_group(1, b'{') || self.peek_group(1, b'(') || self.peek_p1(1, b'<')) {
            // pat_ident (no `@`, no `..` in the alphabet)
            self.i += 1;
            return true;
        }
        if self.peek_ident(0) || self.peek_p2(0, b':', b':') || self.peek_p1(0, b'<') {
            // pat_path_or_macro_or_struct_or_range
            let (qself, mod_style) = match self.qpath_info(true) {
                Some(x) => x,
                None => return false,
            };
            if !qself && mod_style && self.peek_p1(0, b'!') {
                self.i += 1;
                return self.eat_any_group();
            }
            if self.peek_group(0, b'{') || self.peek_group(0, b'(') {
                self.i += 1;
            }
            return true;
        }
        if self.peek_p1(0, b'&') {
            // pat_reference
            self.i += 1;
            return self.pat();
        }
        if self.peek_group(0, b'[') {
            self.i += 1; // slice pattern
            return true;
        }
        if self.peek_p1(0, b'-') && self.peek_lit(1) {
            self.i += 2;
            return true;
        }
        if self.peek_lit(0) {
            self.i += 1;
            return true;
        }
        if self.peek_group(0, b'(') {
            self.i += 1;
            return true;
        }
        false
    }

    // ------------------------------------------------------------------ paths and types (path.rs, ty.rs)

    fn qpath(&mut self, expr_style: bool) -> bool {
        self.qpath_info(expr_style).is_some()
    }
    /// path::parsing::qpath; returns (has a qualified self, path is mod-style i.e. no segment has generic arguments)
    fn qpath_info(&mut self, expr_style: bool) -> Option<(bool, bool)> {
        let start = self.i;
        let q = self.peek_p1(0, b'<');
        if !self.qpath_inner(expr_style) {
            return None;
        }
        let mut mod_style = true;
        let mut k = start;
        while k < self.i {
            if self.t[k].kind == K_PUNCT && self.t[k].ch == b'<' {
                mod_style = false;
            }
            k += 1;
        }
        Some((q, mod_style))
    }
    fn qpath_inner(&mut self, expr_style: bool) -> bool {
        if self.peek_p1(0, b'<') {
            self.i += 1;
            if !self.ty() {
                return false;
            }
            if self.peek_as(0) {
                self.i += 1;
                // Path::parse (not expr style)
                if !self.path(false) {
                    return false;
                }
            }
            if !self.eat_p1(b'>') {
                return false;
            }
            if !self.eat_p2(b':', b':') {
                return false;
            }
            loop {
                if !self.segment(expr_style) {
                    return false;
                }
                if !self.peek_p2(0, b':', b':') {
                    break;
                }
                self.i += 2;
            }
            true
        } else {
            self.path(expr_style)
        }
    }
    /// Path::parse_helper + parse_rest
    fn path(&mut self, expr_style: bool) -> bool {
        if self.peek_p2(0, b':', b':') {
            self.i += 2;
        }
        if !self.segment(expr_style) {
            return false;
        }
        // parse_rest: `::` not followed (peek3) by a paren group
        while self.peek_p2(0, b':', b':') && !self.peek_group(2, b'(') {
            self.i += 2;
            if !self.segment(expr_style) {
                return false;
            }
        }
        true
    }
    /// PathSegment::parse_helper
    fn segment(&mut self, expr_style: bool) -> bool {
        if !self.peek_ident(0) {
            return false;
        }
        self.i += 1;
        if (!expr_style && self.peek_p1(0, b'<')) || (self.peek_p2(0, b':', b':') && self.peek_p1(2, b'<')) {
            // AngleBracketedGenericArguments::parse: optional `::`
            if self.peek_p2(0, b':', b':') {
                self.i += 2;
            }
            return self.angle_args();
        }
        true
    }
    /// AngleBracketedGenericArguments::do_parse, positioned at `<`
    fn angle_args(&mut self) -> bool {
        let turbofish = self.i >= 2 && self.t[self.i - 2].kind == K_PUNCT && self.t[self.i - 2].ch == b':' && self.t[self.i - 2].joint
            && self.t[self.i - 1].kind == K_PUNCT && self.t[self.i - 1].ch == b':';
        if !self.eat_p1(b'<') {
            return false;
        }
        loop {
            if self.peek_p1(0, b'>') {
                break;
            }
            if !self.generic_argument() {
                return false;
            }
            if self.peek_p1(0, b'>') {
                break;
            }
            if !self.eat_p1(b',') {
                return false;
            }
            if !turbofish {
                self.flags |= F_TYPE_ANGLE_COMMA;
            }
        }
        self.eat_p1(b'>')
    }
    /// GenericArgument::parse
    fn generic_argument(&mut self) -> bool {
        if self.peek_lit(0) || self.peek_group(0, b'{') {
            self.i += 1;
            return true;
        }
        let start = self.i;
        if !self.ty() {
            return false;
        }
        // `ident [<args>] = ...`: an associated type / const binding, only after a one-segment path type without leading `::`
        if self.one_segment_path(start) && self.peek_p1(0, b'=') {
            self.i += 1;
            if self.peek_lit(0) || self.peek_group(0, b'{') {
                self.i += 1;
                return true;
            }
            return self.ty();
        }
        true
    }
    /// was tts[start..i] a type of the form `ident` or `ident<...>` (optionally `ident::<...>`)?
    fn one_segment_path(&self, start: usize) -> bool {
        let t = &self.t;
        if !(start < self.i && t[start].kind == K_IDENT && !t[start].keyword) {
            return false;
        }
        if self.i == start + 1 {
            return true;
        }
        // ident followed by one balanced <...> (with or without `::`) that ends exactly at i
        let mut k = start + 1;
        if k + 1 < self.i && t[k].kind == K_PUNCT && t[k].ch == b':' && t[k].joint && t[k + 1].kind == K_PUNCT && t[k + 1].ch == b':' {
            k += 2;
        }
        if !(k < self.i && t[k].kind == K_PUNCT && t[k].ch == b'<') {
            return false;
        }
        let mut depth = 0i32;
        while k < self.i {
            if t[k].kind == K_PUNCT && t[k].ch == b'<' {
                depth += 1;
            } else if t[k].kind == K_PUNCT && t[k].ch == b'>' && !(k > 0 && t[k - 1].kind == K_PUNCT && t[k - 1].ch == b'-' && t[k - 1].joint) {
                depth -= 1;
                if depth == 0 {
                    return k + 1 == self.i;
                }
            }
            k += 1;
        }
        false
    }
    /// ty::parsing::ambig_ty restricted to the alphabet: tuple type or (qualified) path type
    fn ty(&mut self) -> bool {
        self.depth += 1;
        if self.depth > 24 {
            return false;
        }
        let ok = if self.peek_group(0, b'(') {
            self.i += 1;
            true
        } else if self.peek_ident(0) || self.peek_p2(0, b':', b':') || self.peek_p1(0, b'<') {
            match self.qpath_info(false) {
                None => false,
                Some((qself, mod_style)) => {
                    if !qself && mod_style && self.peek_p1(0, b'!') {
                        // TypeMacro
                        self.i += 1;
                        self.eat_any_group()
                    } else {
                        true
                    }
                }
            }
        } else if self.peek_p1(0, b'&') {
            self.i += 1;
            self.ty()
        } else if self.peek_p1(0, b'!') {
            self.i += 1; // never type
            true
        } else {
            // `[a, a]` is neither a slice nor an array type
            false
        };
        self.depth -= 1;
        ok
    }
}

/// `[name =] expr (, [name =] expr)* [,]` - None if the tokens are not such a list in Rust's grammar
pub fn expr_list(tts: &[Tt], out: &mut [OArg; 8], flags: &mut u8) -> Option<usize> {
    if tts.len() > MAXTT {
        return None;
    }
    let mut p = P { t: tts, n: tts.len(), i: 0, depth: 0, flags: 0 };
    let mut n = 0usize;
    loop {
        if p.i >= p.n {
            break;
        }
        let first = p.i;
        // format_args!: `ident = expr` is a named argument when the token after the identifier is exactly `=`
        let alias = p.peek_ident(0) && p.peek_p1(1, b'=') && !p.peek_p2(1, b'=', b'=');
        if alias {
            p.i += 2;
        }
        let estart = p.i;
        if !p.expr() {
            return None;
        }
        let is_ident = p.i == estart + 1 && p.t[estart].kind == K_IDENT && !p.t[estart].keyword;
        if n < 8 {
            out[n] = OArg { alias, is_ident, first: first as u8, end: p.i as u8 };
        }
        n += 1;
        if p.i >= p.n {
            break;
        }
        if !p.eat_p1(b',') {
            return None;
        }
    }
    *flags = p.flags;
    Some(n)
}
