//! Environment stub for `proc_macro2`, as far as impl/src/parsing.rs and FmtArgument use it: token trees are indices into
//! a fixed token array owned by the harness, a TokenStream records which indices it was built from (first, count and
//! whether they were appended contiguously and in order).
#![allow(dead_code)]

#[derive(Clone, Copy, Debug, PartialEq, Eq)]
pub enum Spacing { Alone, Joint }

#[derive(Clone, Copy, Debug)]
pub struct Span;

#[derive(Clone, Copy, Debug)]
pub struct Punct { pub ch: char, pub spacing: Spacing, pub idx: u32 }
impl Punct {
    pub fn as_char(&self) -> char { self.ch }
    pub fn spacing(&self) -> Spacing { self.spacing }
}

/// an identifier: a token of the harness's token array (`idx`, its text is the descriptor's one-byte name) or one made by
/// `format_ident!` (`idx == u32::MAX`, text = the formatted string)
#[derive(Clone, Copy, Debug)]
pub struct Ident { pub idx: u32, pub keyword: bool, pub text: *const u8, pub text_len: usize }
impl Ident {
    pub fn text(&self) -> &[u8] { unsafe { core::slice::from_raw_parts(self.text, self.text_len) } }
}
impl PartialEq for Ident {
    fn eq(&self, o: &Ident) -> bool { self.text() == o.text() }
}
impl Eq for Ident {}
impl core::fmt::Display for Ident {
    fn fmt(&self, f: &mut core::fmt::Formatter<'_>) -> core::fmt::Result {
        f.write_str(unsafe { core::str::from_utf8_unchecked(self.text()) })
    }
}
/// syn / proc_macro2: an identifier compares with anything string-like by its text
impl<T: ?Sized + AsRef<str>> PartialEq<T> for Ident {
    fn eq(&self, o: &T) -> bool { self.text() == o.as_ref().as_bytes() }
}

/// harness-side token tree descriptor (same #[repr(C)] layout as tokens.rs::Tt): kind 0 identifier, 1 punct, 2 literal, 3 group
#[derive(Clone, Copy)]
#[repr(C)]
pub struct RawTt { pub kind: u8, pub ch: u8, pub joint: bool, pub keyword: bool }

#[derive(Clone, Copy, Debug)]
pub struct Group { pub idx: u32, pub open: u8 }
#[derive(Clone, Copy, Debug)]
pub struct Literal { pub idx: u32 }

/// a token tree of the harness's token array (the scanner never looks inside a group)
#[derive(Clone, Copy, Debug)]
pub enum TokenTree { Group(Group), Ident(Ident), Punct(Punct), Literal(Literal) }
impl TokenTree {
    pub fn idx(&self) -> u32 {
        match self { TokenTree::Group(g) => g.idx, TokenTree::Ident(i) => i.idx, TokenTree::Punct(p) => p.idx, TokenTree::Literal(l) => l.idx }
    }
    /// the token tree at position `idx` of `toks`
    pub fn of(toks: &[RawTt], idx: usize) -> TokenTree {
        let t = &toks[idx];
        match t.kind {
            0 => TokenTree::Ident(Ident { idx: idx as u32, keyword: t.keyword, text: &t.ch as *const u8, text_len: 1 }),
            1 => TokenTree::Punct(Punct { ch: t.ch as char, spacing: if t.joint { Spacing::Joint } else { Spacing::Alone }, idx: idx as u32 }),
            2 => TokenTree::Literal(Literal { idx: idx as u32 }),
            _ => TokenTree::Group(Group { idx: idx as u32, open: t.ch }),
        }
    }
}
/// the token array the current scan runs over (set by `syn::parse::ParseBuffer::new`): lets a `TokenStream`, which only records indices,
/// hand out proper token trees again when it is iterated
pub static mut TOKENS: (*const RawTt, usize) = (core::ptr::null(), 0);

#[derive(Clone, Copy, Debug)]
pub struct TokenStream { pub first: u32, pub n: u32, pub in_order: bool }
impl TokenStream {
    pub fn new() -> Self { TokenStream { first: 0, n: 0, in_order: true } }
    pub fn push_idx(&mut self, idx: u32) {
        if self.n == 0 { self.first = idx; } else if idx != self.first + self.n { self.in_order = false; }
        self.n += 1;
    }
}
impl Default for TokenStream { fn default() -> Self { Self::new() } }
pub struct IntoIter { cur: u32, end: u32 }
impl Iterator for IntoIter {
    type Item = TokenTree;
    fn next(&mut self) -> Option<TokenTree> {
        if self.cur < self.end {
            self.cur += 1;
            let toks = unsafe { core::slice::from_raw_parts(TOKENS.0, TOKENS.1) };
            let i = (self.cur - 1) as usize;
            // (indices outside the array only occur for the synthetic streams of the decision-half harness, which are never iterated)
            Some(if i < toks.len() { TokenTree::of(toks, i) } else { TokenTree::Literal(Literal { idx: i as u32 }) })
        } else { None }
    }
}
impl IntoIterator for TokenStream {
    type Item = TokenTree;
    type IntoIter = IntoIter;
    // a stream that is not in order cannot be re-iterated faithfully; it stays flagged through `absorb`
    fn into_iter(self) -> IntoIter { IntoIter { cur: self.first, end: self.first + self.n } }
}
impl Extend<TokenTree> for TokenStream {
    fn extend<I: IntoIterator<Item = TokenTree>>(&mut self, iter: I) {
        for t in iter { self.push_idx(t.idx()); }
    }
}
impl TokenStream {
    /// `extend` with a whole stream keeps its out-of-order flag
    pub fn absorb(&mut self, o: TokenStream) {
        if !o.in_order { self.in_order = false; }
        let mut i = 0;
        while i < o.n { self.push_idx(o.first + i); i += 1; }
    }
}
