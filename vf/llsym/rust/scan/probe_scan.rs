// C16 / C18(scanner half) wrapper: the unmodified working-tree impl/src/parsing.rs (the argument scanner) and
// `FmtArgument` (cut out of impl/src/fmt/mod.rs) compiled against the syn / proc_macro2 / quote environment stubs,
// driven like `Punctuated::<FmtArgument, Token![,]>::parse_terminated`, compared with the grammar oracle.
#![allow(dead_code, unused, clippy::all)]

#[path = "@TOKENS_RS@"]
pub mod tokens;
#[path = "@PARSING_RS@"]
mod parsing;
#[path = "@ORACLE_RS@"]
pub mod oracle;

mod fmtarg {
    use crate::parsing::Expr;
    use proc_macro2::TokenStream;
    use quote::ToTokens;
    use syn::{parse::{Parse, ParseStream}, token};
@FMTARG_ITEMS@
}

use tokens::*;

pub const MAXARGS: usize = 8;

#[derive(Clone, Copy, PartialEq, Eq)]
pub struct Arg { pub alias: bool, pub is_ident: bool, pub first: u8, pub end: u8, pub faithful: bool }
pub const ARG0: Arg = Arg { alias: false, is_ident: false, first: 0, end: 0, faithful: true };

/// what the derive sees: Err, or the list of arguments with the token-tree range each one covers
pub fn scan(tts: &[syn::RawTt], out: &mut [Arg; MAXARGS]) -> Option<usize> {
    use quote::ToTokens;
    use syn::parse::Parse;
    let buf = syn::parse::ParseBuffer::new(tts);
    let input = &buf;
    let mut n = 0usize;
    // Punctuated::parse_terminated
    loop {
        if input.is_empty() {
            break;
        }
        let before = input.cursor().pos;
        let a = match fmtarg::FmtArgument::parse(input) {
            Ok(a) => a,
            Err(_) => return None,
        };
        let after = input.cursor().pos;
        if after <= before || after > tts.len() {
            // no progress: `parse_terminated` would loop or fail; treat as failure
            return None;
        }
        let ts = a.to_token_stream();
        let faithful = ts.in_order && ts.first as usize == before && ts.n as usize == after - before;
        let is_ident = a.expr.ident().is_some();
        if n < MAXARGS {
            out[n] = Arg { alias: a.alias.is_some(), is_ident, first: before as u8, end: after as u8, faithful };
        }
        n += 1;
        if input.is_empty() {
            break;
        }
        match input.parse::<syn::token::Comma>() {
            Ok(_) => {}
            Err(_) => return None,
        }
    }
    Some(n)
}

/// mode 0: run the scanner and the oracle on every input (validator);
/// mode 1: oracle first, the scanner only on argument lists Rust's grammar accepts (C16);
/// mode 2: the scanner alone (C18: it must return, whatever the tokens).
///
/// Disagreement codes (0 = agreement, or the token sequence is not a list of Rust expressions):
///  1 Rust's grammar accepts the list, the scanner fails
///  2 different number of arguments
///  3 an argument has different boundaries
///  4 `name =` alias detected differently
///  5 "plain field reference" (single identifier) classified differently
///  6 an argument is not handed on token for token, unchanged and in order
#[no_mangle]
pub unsafe extern "C" fn probe(ptr: *const Tt, len: usize, digest: *mut u8, mode: u32) -> u32 {
    let tts = core::slice::from_raw_parts(ptr, len);
    let raw = core::slice::from_raw_parts(ptr as *const syn::RawTt, len);
    let d = core::slice::from_raw_parts_mut(digest, 64);
    let mut want = [oracle::OArg { alias: false, is_ident: false, first: 0, end: 0 }; MAXARGS];
    let mut got = [ARG0; MAXARGS];
    let mut w = None;
    let mut flags = 0u8;
    if mode != 2 {
        w = oracle::expr_list(tts, &mut want, &mut flags);
        d[1] = match w { Some(n) => n as u8, None => 255 };
        if mode == 1 && w.is_none() { return 0; }
    }
    let g = scan(raw, &mut got);
    d[0] = match g { Some(n) => n as u8, None => 255 };
    let mut j = 0;
    while j < MAXARGS && j < 7 {
        d[2 + 4 * j] = got[j].first; d[3 + 4 * j] = got[j].end; d[4 + 4 * j] = (got[j].alias as u8) | (got[j].is_ident as u8) << 1 | (got[j].faithful as u8) << 2;
        d[5 + 4 * j] = want[j].first | want[j].end << 4;
        d[40 + j] = (want[j].alias as u8) | (want[j].is_ident as u8) << 1;
        j += 1;
    }
    d[32] = flags;
    if mode == 2 { return 0; }
    let wn = match w { Some(n) => n, None => return 0 };
    // the known `|` weakness of the scanner needs a second `|` to close the pair and a comma in between: without that pattern in
    // the token trees a disagreement is not attributed to it
    if !pipe_comma_pipe(tts) { flags &= !oracle::F_BINARY_PIPE; }
    // likewise the `<` weakness: a binary `<`, a comma, and a `>` directly followed by `::` (which the scanner takes for a qualified path `<..>::`)
    if !lt_comma_gt_pathsep(tts) { flags &= !oracle::F_BINARY_LT; }
    let code = compare(g, wn, &got, &want);
    // a disagreement carries the oracle's feature flags of the accepted parse in bits 8.. (used to name known classes)
    if code != 0 { code | (flags as u32) << 8 } else { 0 }
}

/// is there a `|` punct, later a `,`, later another `|` punct (top level: groups are single token trees)?
fn pipe_comma_pipe(tts: &[Tt]) -> bool {
    let mut state = 0u8;
    let mut i = 0;
    while i < tts.len() {
        let t = &tts[i];
        if t.kind == K_PUNCT {
            if t.ch == b'|' {
                if state == 2 { return true; }
                if state == 0 { state = 1; }
            } else if t.ch == b',' && state == 1 {
                state = 2;
            }
        }
        i += 1;
    }
    false
}

/// is there a `<` punct, later a `,`, later a `>` punct directly followed by `::`?
fn lt_comma_gt_pathsep(tts: &[Tt]) -> bool {
    let mut state = 0u8;
    let mut i = 0;
    while i < tts.len() {
        let t = &tts[i];
        if t.kind == K_PUNCT {
            if t.ch == b'<' && state == 0 {
                state = 1;
            } else if t.ch == b',' && state == 1 {
                state = 2;
            } else if t.ch == b'>' && state == 2 && i + 2 < tts.len() + 0 && tts[i + 1].kind == K_PUNCT && tts[i + 1].ch == b':' && tts[i + 1].joint
                && tts[i + 2].kind == K_PUNCT && tts[i + 2].ch == b':' {
                return true;
            }
        }
        i += 1;
    }
    false
}

fn compare(g: Option<usize>, wn: usize, got: &[Arg; MAXARGS], want: &[oracle::OArg; MAXARGS]) -> u32 {
    let gn = match g { Some(n) => n, None => return 1 };
    if gn != wn { return 2; }
    let mut j = 0;
    while j < gn && j < MAXARGS {
        let (a, b) = (&got[j], &want[j]);
        if a.first != b.first || a.end != b.end { return 3; }
        if a.alias != b.alias { return 4; }
        if a.is_ident != b.is_ident { return 5; }
        if !a.faithful { return 6; }
        j += 1;
    }
    0
}
