//! Environment stub for `quote::ToTokens`.
use proc_macro2::{Ident, Punct, TokenStream, TokenTree};

pub trait ToTokens {
    fn to_tokens(&self, tokens: &mut TokenStream);
    fn to_token_stream(&self) -> TokenStream { let mut t = TokenStream::new(); self.to_tokens(&mut t); t }
    fn into_token_stream(self) -> TokenStream where Self: Sized { self.to_token_stream() }
}
impl ToTokens for Punct { fn to_tokens(&self, t: &mut TokenStream) { t.push_idx(self.idx) } }
impl ToTokens for Ident { fn to_tokens(&self, t: &mut TokenStream) { t.push_idx(self.idx) } }
impl ToTokens for TokenTree { fn to_tokens(&self, t: &mut TokenStream) { t.push_idx(self.idx) } }
impl ToTokens for TokenStream { fn to_tokens(&self, t: &mut TokenStream) { t.absorb(*self) } }
impl<T: ToTokens> ToTokens for Option<T> { fn to_tokens(&self, t: &mut TokenStream) { if let Some(x) = self { x.to_tokens(t) } } }
