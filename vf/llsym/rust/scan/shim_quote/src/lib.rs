//! Environment stub for `quote::ToTokens`.
use proc_macro2::{Ident, Punct, TokenStream, TokenTree};

pub trait ToTokens {
    fn to_tokens(&self, tokens: &mut TokenStream);
    fn to_token_stream(&self) -> TokenStream { let mut t = TokenStream::new(); self.to_tokens(&mut t); t }
    fn into_token_stream(self) -> TokenStream where Self: Sized { self.to_token_stream() }
}
impl ToTokens for Punct { fn to_tokens(&self, t: &mut TokenStream) { t.push_idx(self.idx) } }
impl ToTokens for Ident { fn to_tokens(&self, t: &mut TokenStream) { t.push_idx(self.idx) } }
impl ToTokens for TokenTree { fn to_tokens(&self, t: &mut TokenStream) { t.push_idx(self.idx()) } }
impl ToTokens for TokenStream { fn to_tokens(&self, t: &mut TokenStream) { t.absorb(*self) } }
impl<T: ToTokens> ToTokens for Option<T> { fn to_tokens(&self, t: &mut TokenStream) { if let Some(x) = self { x.to_tokens(t) } } }

/// `format_ident!("{name}")`: the formatted text becomes the identifier's text (leaked: identifiers are `Copy` here)
pub fn __ident_from_fmt(args: core::fmt::Arguments<'_>) -> Ident {
    let s: &'static str = Box::leak(std::fmt::format(args).into_boxed_str());
    Ident { idx: u32::MAX, keyword: false, text: s.as_ptr(), text_len: s.len() }
}
#[macro_export]
macro_rules! format_ident {
    ($fmt:literal) => { $crate::__ident_from_fmt(format_args!($fmt)) };
}
