// The token-tree alphabet shared by the C16 wrapper, its oracle and its validator.
//
// The scanner's real input is a sequence of *token trees* (proc_macro2::TokenTree), so that is the symbolic input: an array
// of `Tt` descriptors.  A descriptor is valid when it is one of the kinds below; a sequence is valid (i.e. it is what
// proc_macro2 produces for some source text, within the alphabet) when additionally every `Joint` punct starts one of the
// two-character operators of JOINT_PAIRS (`::` `||` `==` `->` `>>`) whose second character is `Alone`.
// `render` writes the source text of a valid sequence: token trees are separated by one space except after a Joint punct.

/// token-tree kinds
pub const K_IDENT: u8 = 0;
pub const K_PUNCT: u8 = 1;
pub const K_LIT: u8 = 2;
pub const K_GROUP: u8 = 3;

/// one token tree: kind; char (the punct's char, the group's opening delimiter, b'a' for identifiers, b'1' for literals);
/// joint spacing (puncts only); keyword (identifiers only: the keyword `as`)
#[derive(Clone, Copy, PartialEq, Eq, Debug)]
#[repr(C)]
pub struct Tt {
    pub kind: u8,
    pub ch: u8,
    pub joint: bool,
    pub keyword: bool,
}
pub const TT0: Tt = Tt { kind: 0, ch: 0, joint: false, keyword: false };

/// punctuation characters of the alphabet
pub const PUNCTS: [u8; 10] = *b",<>:|=-&.!";
/// two-character operators: (first char, Joint), (second char, Alone)
pub const JOINT_PAIRS: [(u8, u8); 5] = [(b':', b':'), (b'|', b'|'), (b'=', b'='), (b'-', b'>'), (b'>', b'>')];
/// group delimiters of the alphabet; the content is fixed per delimiter (the scanner never looks inside a group)
pub const GROUPS: [u8; 3] = *b"([{";

/// all valid single descriptors, in a fixed order (used by the validator's enumeration)
pub fn alphabet() -> Vec<Tt> {
    let mut v = vec![
        Tt { kind: K_IDENT, ch: b'a', joint: false, keyword: false },
        Tt { kind: K_IDENT, ch: b's', joint: false, keyword: true },
        Tt { kind: K_LIT, ch: b'1', joint: false, keyword: false },
    ];
    for &g in GROUPS.iter() {
        v.push(Tt { kind: K_GROUP, ch: g, joint: false, keyword: false });
    }
    for &p in PUNCTS.iter() {
        v.push(Tt { kind: K_PUNCT, ch: p, joint: false, keyword: false });
        v.push(Tt { kind: K_PUNCT, ch: p, joint: true, keyword: false });
    }
    v
}

pub fn valid_tt(t: &Tt) -> bool {
    match t.kind {
        K_IDENT => !t.joint && ((t.ch == b'a' && !t.keyword) || (t.ch == b's' && t.keyword)),
        K_LIT => t.ch == b'1' && !t.joint && !t.keyword,
        K_GROUP => GROUPS.contains(&t.ch) && !t.joint && !t.keyword,
        K_PUNCT => PUNCTS.contains(&t.ch) && !t.keyword,
        _ => false,
    }
}

/// is `ts` what the lexer can produce?
pub fn valid_seq(ts: &[Tt]) -> bool {
    for (i, t) in ts.iter().enumerate() {
        if !valid_tt(t) {
            return false;
        }
        if t.kind == K_PUNCT && t.joint {
            let ok = i + 1 < ts.len() && ts[i + 1].kind == K_PUNCT && !ts[i + 1].joint && JOINT_PAIRS.contains(&(t.ch, ts[i + 1].ch));
            if !ok {
                return false;
            }
        }
    }
    true
}

pub fn render(ts: &[Tt]) -> String {
    let mut s = String::new();
    for t in ts {
        match t.kind {
            K_IDENT => s.push_str(if t.keyword { "as" } else { "a" }),
            K_LIT => s.push('1'),
            K_GROUP => s.push_str(match t.ch {
                b'(' => "(a, a)",
                b'[' => "[a, a]",
                _ => "{ a }",
            }),
            _ => s.push(t.ch as char),
        }
        if !(t.kind == K_PUNCT && t.joint) {
            s.push(' ');
        }
    }
    s
}
