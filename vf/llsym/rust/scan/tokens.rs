// The token-tree alphabet shared by the C16 / C18 wrapper, its oracle and its validator.
//
// The scanner's real input is a sequence of *token trees* (proc_macro2::TokenTree), so that is the symbolic input: an array
// of `Tt` descriptors.  Two domains:
//  * `any_seq`   - every sequence of well-formed descriptors, whatever the spacing (a token stream handed over by another macro
//                  can carry any spacing; this is what totality, C18, quantifies over), including the `'` punct of a lifetime;
//  * `lexer_seq` - the sequences the lexer produces from source text: a punct can be Joint only when the next token tree is a
//                  punct too (C16 quantifies over these: argument lists as they are written), no `'`.
// `render` writes the source text of a lexer sequence: token trees are separated by one space except after a Joint punct.

/// token-tree kinds
pub const K_IDENT: u8 = 0;
pub const K_PUNCT: u8 = 1;
pub const K_LIT: u8 = 2;
pub const K_GROUP: u8 = 3;

/// one token tree: kind; char (the punct's char, the group's opening delimiter, b'a' for identifiers, b'1' for literals);
/// joint spacing (puncts only); keyword (identifiers only: the keyword `as`)
#[derive(Clone, Copy, PartialEq, Eq, Debug)]
#[repr(C)]
pub struct Tt {
    pub kind: u8,
    pub ch: u8,
    pub joint: bool,
    pub keyword: bool,
}
pub const TT0: Tt = Tt { kind: 0, ch: 0, joint: false, keyword: false };

/// punctuation characters of the alphabet (`'` only in `any_seq`)
pub const PUNCTS: [u8; 10] = *b",<>:|=-&.!";
pub const QUOTE: u8 = b'\'';
/// group delimiters of the alphabet; the content is fixed per delimiter (the scanner never looks inside a group)
pub const GROUPS: [u8; 3] = *b"([{";

/// all well-formed descriptors, in a fixed order (used by the validator's enumeration)
pub fn alphabet(with_quote: bool) -> Vec<Tt> {
    let mut v = vec![
        Tt { kind: K_IDENT, ch: b'a', joint: false, keyword: false },
        Tt { kind: K_IDENT, ch: b's', joint: false, keyword: true },
        Tt { kind: K_LIT, ch: b'1', joint: false, keyword: false },
    ];
    for &g in GROUPS.iter() {
        v.push(Tt { kind: K_GROUP, ch: g, joint: false, keyword: false });
    }
    for &p in PUNCTS.iter() {
        v.push(Tt { kind: K_PUNCT, ch: p, joint: false, keyword: false });
        v.push(Tt { kind: K_PUNCT, ch: p, joint: true, keyword: false });
    }
    if with_quote {
        v.push(Tt { kind: K_PUNCT, ch: QUOTE, joint: false, keyword: false });
        v.push(Tt { kind: K_PUNCT, ch: QUOTE, joint: true, keyword: false });
    }
    v
}

pub fn valid_tt(t: &Tt, with_quote: bool) -> bool {
    match t.kind {
        K_IDENT => !t.joint && ((t.ch == b'a' && !t.keyword) || (t.ch == b's' && t.keyword)),
        K_LIT => t.ch == b'1' && !t.joint && !t.keyword,
        K_GROUP => GROUPS.contains(&t.ch) && !t.joint && !t.keyword,
        K_PUNCT => (PUNCTS.contains(&t.ch) || (with_quote && t.ch == QUOTE)) && !t.keyword,
        _ => false,
    }
}

pub fn any_seq(ts: &[Tt]) -> bool {
    ts.iter().all(|t| valid_tt(t, true))
}

/// is `ts` what the lexer produces from source text?
pub fn lexer_seq(ts: &[Tt]) -> bool {
    for (i, t) in ts.iter().enumerate() {
        if !valid_tt(t, false) {
            return false;
        }
        if t.kind == K_PUNCT {
            let next_is_punct = i + 1 < ts.len() && ts[i + 1].kind == K_PUNCT;
            // Joint = written directly before another punctuation character; Alone before a punct = the user wrote a space
            if t.joint && !next_is_punct {
                return false;
            }
        }
    }
    true
}

pub fn render(ts: &[Tt]) -> String {
    let mut s = String::new();
    for t in ts {
        match t.kind {
            K_IDENT => s.push_str(if t.keyword { "as" } else { "a" }),
            K_LIT => s.push('1'),
            K_GROUP => s.push_str(match t.ch {
                b'(' => "(a, a)",
                b'[' => "[a, a]",
                _ => "{ a }",
            }),
            _ => s.push(t.ch as char),
        }
        if !(t.kind == K_PUNCT && t.joint) {
            s.push(' ');
        }
    }
    s
}
