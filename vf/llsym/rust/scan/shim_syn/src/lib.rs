//! Environment stub for the part of `syn` that impl/src/parsing.rs and `FmtArgument::parse` use: `buffer::Cursor` over a
//! fixed token array, `parse::{Parse, ParseStream, ParseBuffer::{step, peek, peek2, parse, is_empty}}`, `Ident`, `token::{Eq, EqEq, Comma}`,
//! `Error`, `Result`.  Behaviour follows syn 2 at this level (peek of `=` also matches the first char of `==`, keywords are not idents).
#![allow(dead_code, non_snake_case)]
pub use proc_macro2::Ident;
use proc_macro2::{Punct, Spacing, Span, TokenTree};

pub use proc_macro2::RawTt;

pub struct Error;
impl Error {
    pub fn new<T: core::fmt::Display>(_span: Span, _message: T) -> Self { Error }
}
pub type Result<T> = core::result::Result<T, Error>;

/// a string literal token: the harness hands over its value
#[derive(Clone, Copy, Debug)]
pub struct LitStr { pub ptr: *const u8, pub len: usize }
impl LitStr {
    pub fn value(&self) -> String {
        let b = unsafe { core::slice::from_raw_parts(self.ptr, self.len) };
        // the harness only passes valid UTF-8
        unsafe { core::str::from_utf8_unchecked(b) }.to_owned()
    }
}

pub mod punctuated {
    /// as far as `FmtAttribute` uses it: a sequence of values (the separators carry no information here)
    #[derive(Debug)]
    pub struct Punctuated<T, P> { pub items: Vec<T>, pub _p: core::marker::PhantomData<P> }
    impl<T, P> Punctuated<T, P> {
        pub fn new() -> Self { Punctuated { items: Vec::new(), _p: core::marker::PhantomData } }
        pub fn push(&mut self, t: T) { self.items.push(t) }
        pub fn len(&self) -> usize { self.items.len() }
        pub fn is_empty(&self) -> bool { self.items.is_empty() }
        pub fn first(&self) -> Option<&T> { self.items.first() }
        pub fn iter(&self) -> core::slice::Iter<'_, T> { self.items.iter() }
    }
}

pub mod ext {
    /// `IdentExt::unraw`: the identifiers of the harness carry their text without `r#`
    pub trait IdentExt { fn unraw(&self) -> super::Ident; }
    impl IdentExt for super::Ident { fn unraw(&self) -> super::Ident { *self } }
}

/// a type: the harness only needs to tell the field types apart
#[derive(Clone, Copy, Debug, PartialEq, Eq)]
pub struct Type(pub u8);
#[derive(Debug)]
pub struct Field { pub ident: Option<Ident>, pub ty: Type }
#[derive(Debug)]
pub struct FieldsNamed { pub named: punctuated::Punctuated<Field, token::Comma> }
#[derive(Debug)]
pub struct FieldsUnnamed { pub unnamed: punctuated::Punctuated<Field, token::Comma> }
#[derive(Debug)]
pub enum Fields { Named(FieldsNamed), Unnamed(FieldsUnnamed), Unit }

pub mod lookahead { pub enum TokenMarker {} }
pub fn Ident(marker: lookahead::TokenMarker) -> Ident { match marker {} }

pub mod buffer {
    use super::*;
    #[derive(Clone, Copy)]
    pub struct Cursor<'a> { pub toks: &'a [RawTt], pub pos: usize }
    impl<'a> Cursor<'a> {
        pub fn eof(self) -> bool { self.pos >= self.toks.len() }
        pub fn span(self) -> Span { Span }
        pub fn ident(self) -> Option<(Ident, Cursor<'a>)> {
            let t = self.toks.get(self.pos)?;
            if t.kind == 0 {
                Some((Ident { idx: self.pos as u32, keyword: t.keyword, text: &t.ch as *const u8, text_len: 1 }, Cursor { toks: self.toks, pos: self.pos + 1 }))
            } else { None }
        }
        pub fn punct(self) -> Option<(Punct, Cursor<'a>)> {
            let t = self.toks.get(self.pos)?;
            // syn: the `'` of a lifetime is not reported as a punct
            if t.kind == 1 && t.ch != b'\'' {
                Some((Punct { ch: t.ch as char, spacing: if t.joint { Spacing::Joint } else { Spacing::Alone }, idx: self.pos as u32 },
                      Cursor { toks: self.toks, pos: self.pos + 1 }))
            } else { None }
        }
        pub fn token_tree(self) -> Option<(TokenTree, Cursor<'a>)> {
            if self.pos < self.toks.len() { Some((TokenTree::of(self.toks, self.pos), Cursor { toks: self.toks, pos: self.pos + 1 })) } else { None }
        }
    }
}

pub trait Token { fn peek(c: buffer::Cursor<'_>) -> bool; }
impl Token for Ident {
    // syn: an identifier that is not a keyword
    fn peek(c: buffer::Cursor<'_>) -> bool { matches!(c.ident(), Some((i, _)) if !i.keyword) }
}
pub trait Peek { type Tok: Token; }
impl<F: Copy + FnOnce(lookahead::TokenMarker) -> T, T: Token> Peek for F { type Tok = T; }

pub mod token {
    use super::*;
    #[derive(Clone, Copy, Debug)]
    pub struct Eq { pub idx: u32 }
    pub fn Eq(marker: lookahead::TokenMarker) -> Eq { match marker {} }
    impl Token for Eq {
        // syn's peek_punct(cursor, "="): only the first char is compared, so `==` peeks as `=` too
        fn peek(c: buffer::Cursor<'_>) -> bool { matches!(c.punct(), Some((p, _)) if p.as_char() == '=') }
    }
    impl parse::Parse for Eq {
        fn parse(input: parse::ParseStream) -> Result<Self> {
            input.step(|c| match c.punct() { Some((p, rest)) if p.as_char() == '=' => Ok((Eq { idx: p.idx }, rest)), _ => Err(Error) })
        }
    }
    impl quote::ToTokens for Eq { fn to_tokens(&self, t: &mut proc_macro2::TokenStream) { t.push_idx(self.idx) } }
    /// `==` (peek only): syn's peek_punct(cursor, "=="): the first `=` must be Joint, the second may have any spacing
    #[derive(Clone, Copy, Debug)]
    pub struct EqEq { pub idx: u32 }
    pub fn EqEq(marker: lookahead::TokenMarker) -> EqEq { match marker {} }
    impl Token for EqEq {
        fn peek(c: buffer::Cursor<'_>) -> bool {
            match c.punct() {
                Some((p, rest)) if p.as_char() == '=' && p.spacing() == Spacing::Joint => matches!(rest.punct(), Some((q, _)) if q.as_char() == '='),
                _ => false,
            }
        }
    }
    #[derive(Clone, Copy, Debug)]
    pub struct Comma { pub idx: u32 }
    pub fn Comma(marker: lookahead::TokenMarker) -> Comma { match marker {} }
    impl Token for Comma { fn peek(c: buffer::Cursor<'_>) -> bool { matches!(c.punct(), Some((p, _)) if p.as_char() == ',') } }
    impl parse::Parse for Comma {
        fn parse(input: parse::ParseStream) -> Result<Self> {
            input.step(|c| match c.punct() { Some((p, rest)) if p.as_char() == ',' => Ok((Comma { idx: p.idx }, rest)), _ => Err(Error) })
        }
    }
}

pub mod parse {
    use super::*;
    use core::cell::Cell;
    pub trait Parse: Sized { fn parse(input: ParseStream) -> Result<Self>; }
    pub type ParseStream<'a> = &'a ParseBuffer<'a>;
    pub struct ParseBuffer<'a> { pub toks: &'a [RawTt], pub pos: Cell<usize> }
    #[derive(Clone, Copy)]
    pub struct StepCursor<'c, 'a> { cursor: buffer::Cursor<'c>, _m: core::marker::PhantomData<&'a ()> }
    impl<'c, 'a> core::ops::Deref for StepCursor<'c, 'a> { type Target = buffer::Cursor<'c>; fn deref(&self) -> &Self::Target { &self.cursor } }
    impl<'a> ParseBuffer<'a> {
        pub fn new(toks: &'a [RawTt]) -> Self {
            unsafe { proc_macro2::TOKENS = (toks.as_ptr(), toks.len()); }
            ParseBuffer { toks, pos: Cell::new(0) }
        }
        pub fn cursor(&self) -> buffer::Cursor<'a> { buffer::Cursor { toks: self.toks, pos: self.pos.get() } }
        pub fn is_empty(&self) -> bool { self.cursor().eof() }
        pub fn step<F, R>(&self, function: F) -> Result<R>
        where F: for<'c> FnOnce(StepCursor<'c, 'a>) -> Result<(R, buffer::Cursor<'c>)> {
            let (node, rest) = function(StepCursor { cursor: self.cursor(), _m: core::marker::PhantomData })?;
            self.pos.set(rest.pos);
            Ok(node)
        }
        pub fn peek<T: Peek>(&self, _token: T) -> bool { T::Tok::peek(self.cursor()) }
        pub fn peek2<T: Peek>(&self, _token: T) -> bool {
            match self.cursor().token_tree() { Some((_, rest)) => T::Tok::peek(rest), None => false }
        }
        pub fn parse<T: Parse>(&self) -> Result<T> { T::parse(self) }
    }
    impl Parse for Ident {
        fn parse(input: ParseStream) -> Result<Self> {
            input.step(|c| match c.ident() { Some((i, rest)) if !i.keyword => Ok((i, rest)), _ => Err(Error) })
        }
    }
}
