// Native validator for the C16 machinery (template; see vf/llsym/build.py::build_scan_validator).  For EVERY valid
// token-tree sequence of <= N token trees over the alphabet of tokens.rs:
//  (r) rendering: the text `render` produces lexes (real proc_macro2) to exactly the descriptors it was rendered from;
//  (a) environment stubs: the working-tree scanner + FmtArgument compiled against REAL syn / proc_macro2 / quote must accept
//      or reject the sequence, split it, detect aliases and classify single identifiers exactly as the same source
//      compiled against the stubs does (the stub build's answer is read from scanprobe::probe's digest);
//  (b) oracle: scan_oracle.rs must agree with syn's `full` expression parser on which sequences are argument lists, on where
//      each argument begins and ends, on `name =` aliases and on which arguments are a single identifier.
#![allow(dead_code, unused)]
#[path = "@PARSING_RS@"]
mod parsing;
mod fmtarg {
    use crate::parsing::Expr;
    use proc_macro2::TokenStream;
    use quote::ToTokens;
    use syn::{parse::{Parse, ParseStream}, token};
@FMTARG_ITEMS@
}
use quote::ToTokens;
use scanprobe::tokens::*;
use syn::parse::{Parse, ParseStream, Parser};
use syn::punctuated::Punctuated;
use syn::Token;

#[derive(Clone, Copy, PartialEq, Eq, Debug)]
struct A { alias: bool, is_ident: bool, first: u8, end: u8 }

/// token-tree range of each argument from the number of token trees it spans (arguments are separated by one comma)
fn ranges(ntt: usize, counts: &[(usize, bool, bool)]) -> Option<Vec<A>> {
    let mut out = vec![];
    let mut pos = 0usize;
    for (k, &(n, alias, is_ident)) in counts.iter().enumerate() {
        if pos + n > ntt { return None; }
        out.push(A { alias, is_ident, first: pos as u8, end: (pos + n) as u8 });
        pos += n;
        if pos < ntt { pos += 1; /* the separating (or trailing) comma */ }
    }
    if pos != ntt { return None; }
    Some(out)
}

struct FullArg { alias: bool, expr: syn::Expr }
impl Parse for FullArg {
    fn parse(input: ParseStream) -> syn::Result<Self> {
        // format_args!: a named argument iff the token after the identifier is exactly `=`
        let alias = input.peek(syn::Ident) && input.peek2(Token![=]) && !input.peek2(Token![==]) && !input.peek2(Token![=>]);
        if alias { input.parse::<syn::Ident>()?; input.parse::<Token![=]>()?; }
        Ok(FullArg { alias, expr: input.parse()? })
    }
}

fn by_syn(ntt: usize, ts: proc_macro2::TokenStream) -> Option<Vec<A>> {
    let args = Punctuated::<FullArg, Token![,]>::parse_terminated.parse2(ts).ok()?;
    let counts: Vec<(usize, bool, bool)> = args.iter().map(|a| {
        let n = a.expr.to_token_stream().into_iter().count() + if a.alias { 2 } else { 0 };
        let is_ident = matches!(&a.expr, syn::Expr::Path(p) if p.qself.is_none() && p.attrs.is_empty() && p.path.get_ident().is_some());
        (n, a.alias, is_ident)
    }).collect();
    ranges(ntt, &counts)
}

fn by_real_scanner(ntt: usize, ts: proc_macro2::TokenStream) -> Option<Vec<A>> {
    let args = Punctuated::<fmtarg::FmtArgument, Token![,]>::parse_terminated.parse2(ts).ok()?;
    let counts: Vec<(usize, bool, bool)> = args.iter().map(|a| {
        (a.to_token_stream().into_iter().count(), a.alias.is_some(), a.expr.ident().is_some())
    }).collect();
    ranges(ntt, &counts)
}

fn lexes_back(ts: &[Tt], stream: &proc_macro2::TokenStream) -> bool {
    let v: Vec<proc_macro2::TokenTree> = stream.clone().into_iter().collect();
    if v.len() != ts.len() { return false; }
    v.iter().zip(ts).all(|(tt, d)| match tt {
        proc_macro2::TokenTree::Ident(i) => d.kind == K_IDENT && (i == "as") == d.keyword,
        proc_macro2::TokenTree::Literal(_) => d.kind == K_LIT,
        proc_macro2::TokenTree::Punct(p) => d.kind == K_PUNCT && p.as_char() == d.ch as char && (p.spacing() == proc_macro2::Spacing::Joint) == d.joint,
        proc_macro2::TokenTree::Group(g) => d.kind == K_GROUP && match g.delimiter() {
            proc_macro2::Delimiter::Parenthesis => d.ch == b'(',
            proc_macro2::Delimiter::Bracket => d.ch == b'[',
            proc_macro2::Delimiter::Brace => d.ch == b'{',
            _ => false,
        },
    })
}

#[derive(Default, Clone, Copy)]
struct Tot { total: u64, accepted: u64, bad_oracle: u64, bad_shim: u64, bad_render: u64 }

fn check(ts: &[Tt], which: &str, tot: &mut Tot, shown: &std::sync::atomic::AtomicU32) {
    use std::sync::atomic::Ordering;
    let text = render(ts);
    tot.total += 1;
    let stream: proc_macro2::TokenStream = match text.parse() { Ok(s) => s, Err(_) => { tot.bad_render += 1; return; } };
    if !lexes_back(ts, &stream) {
        tot.bad_render += 1;
        if shown.fetch_add(1, Ordering::Relaxed) < 40 { println!("RENDER {:?} does not lex back to its descriptors", text); }
        return;
    }
    let mut digest = [0u8; 64];
    unsafe { scanprobe::probe(ts.as_ptr(), ts.len(), digest.as_mut_ptr(), 0); }
    let dec = |cnt: u8, oracle: bool| -> Option<Vec<A>> {
        if cnt == 255 { return None; }
        Some((0..(cnt as usize).min(7)).map(|j| if oracle {
            A { alias: digest[40 + j] & 1 != 0, is_ident: digest[40 + j] & 2 != 0, first: digest[5 + 4 * j] & 15, end: digest[5 + 4 * j] >> 4 }
        } else {
            A { alias: digest[4 + 4 * j] & 1 != 0, is_ident: digest[4 + 4 * j] & 2 != 0, first: digest[2 + 4 * j], end: digest[3 + 4 * j] }
        }).collect())
    };
    if which != "shim" {
        let want = by_syn(ts.len(), stream.clone());
        let got = dec(digest[1], true);
        if want.is_some() { tot.accepted += 1; }
        let same = match (&want, &got) {
            (None, None) => true,
            (Some(w), Some(g)) => w.len() == digest[1] as usize && w.iter().zip(g.iter()).all(|(a, b)| a == b),
            _ => false,
        };
        if !same {
            tot.bad_oracle += 1;
            if shown.fetch_add(1, Ordering::Relaxed) < 40 { println!("ORACLE {:?}: syn {:?} / oracle {:?}", text, want, got); }
        }
    }
    if which != "oracle" {
        let want = by_real_scanner(ts.len(), stream);
        let got = dec(digest[0], false);
        let same = match (&want, &got) {
            (None, None) => true,
            (Some(w), Some(g)) => w.len() == digest[0] as usize && w.iter().zip(g.iter()).all(|(a, b)| a == b),
            _ => false,
        };
        if !same {
            tot.bad_shim += 1;
            if shown.fetch_add(1, Ordering::Relaxed) < 40 { println!("SHIM {:?}: real syn {:?} / stubs {:?}", text, want, got); }
        }
    }
}

/// depth-first enumeration of the valid sequences with the given prefix (validity is prefix-closed up to the pending Joint)
fn enumerate(prefix: &mut Vec<Tt>, n: usize, alpha: &[Tt], which: &str, tot: &mut Tot, shown: &std::sync::atomic::AtomicU32) {
    if valid_seq(prefix) { check(prefix, which, tot, shown); }
    if prefix.len() == n { return; }
    for &t in alpha {
        // prune: a Joint punct must be followed by the second half of its operator
        if let Some(p) = prefix.last() {
            if p.kind == K_PUNCT && p.joint && !(t.kind == K_PUNCT && !t.joint && JOINT_PAIRS.contains(&(p.ch, t.ch))) { continue; }
        }
        prefix.push(t);
        enumerate(prefix, n, alpha, which, tot, shown);
        prefix.pop();
    }
}

/// `scanvalidator replay "<source text>"`: the argument list through syn's full parser and through the working-tree scanner
/// built against REAL syn - no stubs, no oracle restatement.  Exit 1 when Rust's grammar accepts the list and the scanner
/// does anything else with it.
fn replay(text: &str) -> i32 {
    let stream: proc_macro2::TokenStream = match text.parse() { Ok(s) => s, Err(e) => { println!("does not lex: {e}"); return 2; } };
    let ntt = stream.clone().into_iter().count();
    let want = by_syn(ntt, stream.clone());
    let got = std::panic::catch_unwind(|| by_real_scanner(ntt, stream));
    println!("text: {text}\nsyn (full):         {:?}", want);
    match &got {
        Ok(g) => println!("working-tree scanner: {:?}", g),
        Err(_) => { println!("working-tree scanner: PANICKED"); return 3; }
    }
    let got = got.unwrap();
    match (want, got) {
        (None, _) => { println!("not an argument list in Rust's grammar: nothing demanded of the scanner but to return"); 0 }
        (Some(w), Some(g)) if w == g => { println!("agree"); 0 }
        _ => { println!("DISAGREE"); 1 }
    }
}

fn main() {
    if std::env::args().nth(1).as_deref() == Some("replay") {
        std::process::exit(replay(&std::env::args().nth(2).unwrap_or_default()));
    }
    let n: usize = std::env::args().nth(1).and_then(|x| x.parse().ok()).unwrap_or(4);
    let which = std::env::args().nth(2).unwrap_or_else(|| "both".to_string());
    let extra: Vec<String> = std::env::args().skip(3).collect();
    let alpha = alphabet();
    let shown = std::sync::atomic::AtomicU32::new(0);
    let mut tot = Tot::default();
    check(&[], &which, &mut tot, &shown);
    // one thread per two-token prefix class, work-stealing over the list of prefixes
    let mut prefixes: Vec<Vec<Tt>> = vec![];
    for &a in &alpha { if n >= 1 { prefixes.push(vec![a]); } }
    let next = std::sync::atomic::AtomicUsize::new(0);
    let nthreads = std::thread::available_parallelism().map(|x| x.get()).unwrap_or(4);
    let mut work: Vec<Vec<Tt>> = vec![];
    for p in &prefixes {
        if n >= 2 { for &b in &alpha { let mut q = p.clone(); q.push(b); work.push(q); } }
    }
    let totals: Vec<Tot> = std::thread::scope(|s| {
        let hs: Vec<_> = (0..nthreads).map(|_| s.spawn(|| {
            let mut t = Tot::default();
            loop {
                let k = next.fetch_add(1, std::sync::atomic::Ordering::Relaxed);
                if k >= work.len() { break; }
                let mut p = work[k].clone();
                let (a, b) = (p[0], p[1]);
                if a.kind == K_PUNCT && a.joint && !(b.kind == K_PUNCT && !b.joint && JOINT_PAIRS.contains(&(a.ch, b.ch))) { continue; }
                enumerate(&mut p, n, &alpha, &which, &mut t, &shown);
            }
            t
        })).collect();
        hs.into_iter().map(|h| h.join().unwrap()).collect()
    });
    for p in &prefixes { if valid_seq(p) { check(p, &which, &mut tot, &shown); } }
    for t in totals { tot.total += t.total; tot.accepted += t.accepted; tot.bad_oracle += t.bad_oracle; tot.bad_shim += t.bad_shim; tot.bad_render += t.bad_render; }
    println!("validated {} valid token-tree sequences of <= {} token trees over {} descriptors: {} are argument lists; oracle-vs-syn disagreements {}, stubs-vs-real-syn disagreements {}, rendering failures {}",
             tot.total, n, alpha.len(), tot.accepted, tot.bad_oracle, tot.bad_shim, tot.bad_render);
    if tot.bad_oracle > 0 || tot.bad_shim > 0 || tot.bad_render > 0 { std::process::exit(1); }
}
