// Native validator for the C16 / C18 machinery (template; see vf/llsym/build.py::build_scan_validator).  Token streams are built
// programmatically (proc_macro2::Punct::new(ch, spacing), ...), so every spacing a token stream can carry is covered.  For EVERY
// sequence of <= N well-formed descriptors of tokens.rs (`any_seq` for (a), `lexer_seq` for (r) and (b)):
//  (r) rendering: the text `render` produces lexes (real proc_macro2) to exactly the descriptors it was rendered from;
//  (a) environment stubs: the working-tree scanner + FmtArgument compiled against REAL syn / proc_macro2 / quote must accept
//      or reject the sequence, split it, detect aliases and classify single identifiers exactly as the same source
//      compiled against the stubs does (the stub build's answer is read from scanprobe::probe's digest);
//  (b) oracle: scan_oracle.rs must agree with syn's `full` expression parser on which sequences are argument lists, on where
//      each argument begins and ends, on `name =` aliases and on which arguments are a single identifier.
#![allow(dead_code, unused)]
#[path = "@PARSING_RS@"]
mod parsing;
mod fmtarg {
    use crate::parsing::Expr;
    use proc_macro2::TokenStream;
    use quote::ToTokens;
    use syn::{parse::{Parse, ParseStream}, token};
@FMTARG_ITEMS@
}
use quote::ToTokens;
use scanprobe::tokens::*;
use syn::parse::{Parse, ParseStream, Parser};
use syn::punctuated::Punctuated;
use syn::Token;

#[derive(Clone, Copy, PartialEq, Eq, Debug)]
struct A { alias: bool, is_ident: bool, first: u8, end: u8 }

/// token-tree range of each argument from the number of token trees it spans (arguments are separated by one comma)
fn ranges(ntt: usize, counts: &[(usize, bool, bool)]) -> Option<Vec<A>> {
    let mut out = vec![];
    let mut pos = 0usize;
    for (k, &(n, alias, is_ident)) in counts.iter().enumerate() {
        if pos + n > ntt { return None; }
        out.push(A { alias, is_ident, first: pos as u8, end: (pos + n) as u8 });
        pos += n;
        if pos < ntt { pos += 1; /* the separating (or trailing) comma */ }
    }
    if pos != ntt { return None; }
    Some(out)
}

struct FullArg { alias: bool, expr: syn::Expr }
impl Parse for FullArg {
    fn parse(input: ParseStream) -> syn::Result<Self> {
        // format_args!: a named argument iff the token after the identifier is exactly `=`
        let alias = input.peek(syn::Ident) && input.peek2(Token![=]) && !input.peek2(Token![==]) && !input.peek2(Token![=>]);
        if alias { input.parse::<syn::Ident>()?; input.parse::<Token![=]>()?; }
        Ok(FullArg { alias, expr: input.parse()? })
    }
}

fn by_syn(ntt: usize, ts: proc_macro2::TokenStream) -> Option<Vec<A>> {
    let args = Punctuated::<FullArg, Token![,]>::parse_terminated.parse2(ts).ok()?;
    let counts: Vec<(usize, bool, bool)> = args.iter().map(|a| {
        let n = a.expr.to_token_stream().into_iter().count() + if a.alias { 2 } else { 0 };
        let is_ident = matches!(&a.expr, syn::Expr::Path(p) if p.qself.is_none() && p.attrs.is_empty() && p.path.get_ident().is_some());
        (n, a.alias, is_ident)
    }).collect();
    ranges(ntt, &counts)
}

fn by_real_scanner(ntt: usize, ts: proc_macro2::TokenStream) -> Option<Vec<A>> {
    let args = Punctuated::<fmtarg::FmtArgument, Token![,]>::parse_terminated.parse2(ts).ok()?;
    let counts: Vec<(usize, bool, bool)> = args.iter().map(|a| {
        (a.to_token_stream().into_iter().count(), a.alias.is_some(), a.expr.ident().is_some())
    }).collect();
    ranges(ntt, &counts)
}

/// the real token stream a descriptor sequence stands for
fn build(ts: &[Tt]) -> proc_macro2::TokenStream {
    use proc_macro2::{Delimiter, Group, Ident, Literal, Punct, Spacing, Span, TokenTree};
    let inner = |src: &str| -> proc_macro2::TokenStream { src.parse().unwrap() };
    ts.iter().map(|t| -> TokenTree { match t.kind {
        K_IDENT => Ident::new(if t.keyword { "as" } else { "a" }, Span::call_site()).into(),
        K_LIT => Literal::u8_unsuffixed(1).into(),
        K_GROUP => match t.ch {
            b'(' => Group::new(Delimiter::Parenthesis, inner("a, a")).into(),
            b'[' => Group::new(Delimiter::Bracket, inner("a, a")).into(),
            _ => Group::new(Delimiter::Brace, inner("a")).into(),
        },
        _ => Punct::new(t.ch as char, if t.joint { Spacing::Joint } else { Spacing::Alone }).into(),
    }}).collect()
}

fn lexes_back(ts: &[Tt], stream: &proc_macro2::TokenStream) -> bool {
    let v: Vec<proc_macro2::TokenTree> = stream.clone().into_iter().collect();
    if v.len() != ts.len() { return false; }
    v.iter().zip(ts).all(|(tt, d)| match tt {
        proc_macro2::TokenTree::Ident(i) => d.kind == K_IDENT && (i == "as") == d.keyword,
        proc_macro2::TokenTree::Literal(_) => d.kind == K_LIT,
        proc_macro2::TokenTree::Punct(p) => d.kind == K_PUNCT && p.as_char() == d.ch as char && (p.spacing() == proc_macro2::Spacing::Joint) == d.joint,
        proc_macro2::TokenTree::Group(g) => d.kind == K_GROUP && match g.delimiter() {
            proc_macro2::Delimiter::Parenthesis => d.ch == b'(',
            proc_macro2::Delimiter::Bracket => d.ch == b'[',
            proc_macro2::Delimiter::Brace => d.ch == b'{',
            _ => false,
        },
    })
}

#[derive(Default, Clone, Copy)]
struct Tot { total: u64, accepted: u64, bad_oracle: u64, bad_shim: u64, bad_render: u64 }

fn check(ts: &[Tt], which: &str, tot: &mut Tot, shown: &std::sync::atomic::AtomicU32) {
    use std::sync::atomic::Ordering;
    let lexer = lexer_seq(ts);
    if which == "oracle" && !(lexer && scanprobe::oracle::c16_seq(ts)) { return; }
    tot.total += 1;
    let stream = build(ts);
    if lexer {
        let text = render(ts);
        let ok = match text.parse::<proc_macro2::TokenStream>() { Ok(s) => lexes_back(ts, &s), Err(_) => false };
        if !ok {
            tot.bad_render += 1;
            if shown.fetch_add(1, Ordering::Relaxed) < 40 { println!("RENDER {:?} does not lex back to its descriptors", text); }
        }
    }
    let mut digest = [0u8; 64];
    // the C16 domain: lexer sequences in which `:` occurs only as `::`
    let c16 = lexer && scanprobe::oracle::c16_seq(ts);
    // The environment stubs keep the token array of the current parse in a process-global (`proc_macro2::TOKENS`, set by `ParseBuffer`): fine for
    // the single-threaded symbolic execution they were written for, a data race here.  The probe is therefore serialised; real syn and the
    // rendering checks, where the time goes, stay parallel.
    static PROBE_LOCK: std::sync::Mutex<()> = std::sync::Mutex::new(());
    {
        let _g = PROBE_LOCK.lock().unwrap_or_else(|e| e.into_inner());
        unsafe { scanprobe::probe(ts.as_ptr(), ts.len(), digest.as_mut_ptr(), if c16 { 0 } else { 2 }); }
    }
    let dec = |cnt: u8, oracle: bool| -> Option<Vec<A>> {
        if cnt == 255 { return None; }
        Some((0..(cnt as usize).min(7)).map(|j| if oracle {
            A { alias: digest[40 + j] & 1 != 0, is_ident: digest[40 + j] & 2 != 0, first: digest[5 + 4 * j] & 15, end: digest[5 + 4 * j] >> 4 }
        } else {
            A { alias: digest[4 + 4 * j] & 1 != 0, is_ident: digest[4 + 4 * j] & 2 != 0, first: digest[2 + 4 * j], end: digest[3 + 4 * j] }
        }).collect())
    };
    if which != "shim" && c16 {
        let want = by_syn(ts.len(), stream.clone());
        let got = dec(digest[1], true);
        if want.is_some() { tot.accepted += 1; }
        let same = match (&want, &got) {
            (None, None) => true,
            (Some(w), Some(g)) => w.len() == digest[1] as usize && w.iter().zip(g.iter()).all(|(a, b)| a == b),
            _ => false,
        };
        if !same {
            tot.bad_oracle += 1;
            if shown.fetch_add(1, Ordering::Relaxed) < 40 { println!("ORACLE {:?}: syn {:?} / oracle {:?}", render(ts), want, got); }
        }
    }
    if which != "oracle" {
        let want = by_real_scanner(ts.len(), stream);
        let got = dec(digest[0], false);
        let same = match (&want, &got) {
            (None, None) => true,
            (Some(w), Some(g)) => w.len() == digest[0] as usize && w.iter().zip(g.iter()).all(|(a, b)| a == b),
            _ => false,
        };
        if !same {
            tot.bad_shim += 1;
            if shown.fetch_add(1, Ordering::Relaxed) < 40 { println!("SHIM {:?} {:?}: real syn {:?} / stubs {:?}", render(ts), ts.iter().map(|t| (t.ch as char, t.joint)).collect::<Vec<_>>(), want, got); }
        }
    }
}

/// depth-first enumeration of all descriptor sequences with the given prefix
fn enumerate(prefix: &mut Vec<Tt>, n: usize, alpha: &[Tt], which: &str, tot: &mut Tot, shown: &std::sync::atomic::AtomicU32) {
    check(prefix, which, tot, shown);
    if prefix.len() == n { return; }
    for &t in alpha {
        if which == "oracle" {
            // only the C16 domain matters: prune prefixes that no continuation makes a lexer sequence with `:` only as `::`
            let l = prefix.len();
            if l > 0 {
                let p = prefix[l - 1];
                if p.kind == K_PUNCT && p.joint && t.kind != K_PUNCT { continue; }
                let mut first_half = false;   // is the last descriptor the first half of a `::`?
                for q in prefix.iter() { first_half = q.kind == K_PUNCT && q.ch == b':' && !first_half; }
                if first_half && !(p.joint && t.kind == K_PUNCT && t.ch == b':') { continue; }
            }
            if t.kind == K_PUNCT && t.ch == QUOTE { continue; }
        }
        prefix.push(t);
        enumerate(prefix, n, alpha, which, tot, shown);
        prefix.pop();
    }
}

/// `scanvalidator replay "k,c,j,w k,c,j,w ..."` (descriptors as decimal bytes): the token stream through syn's full parser and
/// through the working-tree scanner built against REAL syn - no stubs, no oracle restatement.  Exit 1 when Rust's grammar
/// accepts the list (lexer sequences only) and the scanner does anything else with it, 3 when the scanner panics.
fn replay(desc: &str) -> i32 {
    let ts: Vec<Tt> = desc.split_whitespace().map(|d| {
        let v: Vec<u8> = d.split(',').map(|x| x.parse().unwrap()).collect();
        Tt { kind: v[0], ch: v[1], joint: v[2] != 0, keyword: v[3] != 0 }
    }).collect();
    if !any_seq(&ts) { println!("not a sequence of well-formed descriptors"); return 2; }
    let stream = build(&ts);
    let lexer = lexer_seq(&ts);
    println!("token trees: {}   (as source text{}: {})", stream, if lexer { "" } else { ", spacing not expressible" }, render(&ts));
    let want = if lexer { by_syn(ts.len(), stream.clone()) } else { None };
    let n = ts.len();
    let got = std::panic::catch_unwind(move || by_real_scanner(n, stream));
    println!("syn (full):           {:?}", want);
    match &got {
        Ok(g) => println!("working-tree scanner: {:?}", g),
        Err(_) => { println!("working-tree scanner: PANICKED"); return 3; }
    }
    let got = got.unwrap();
    match (want, got) {
        (None, _) => { println!("not an argument list in Rust's grammar (or not a lexer sequence): nothing demanded of the scanner but to return"); 0 }
        (Some(w), Some(g)) if w == g => { println!("agree"); 0 }
        _ => { println!("DISAGREE"); 1 }
    }
}

fn main() {
    if std::env::args().nth(1).as_deref() == Some("replay") {
        std::process::exit(replay(&std::env::args().nth(2).unwrap_or_default()));
    }
    let n: usize = std::env::args().nth(1).and_then(|x| x.parse().ok()).unwrap_or(4);
    let which = std::env::args().nth(2).unwrap_or_else(|| "both".to_string());
    let reduced = std::env::args().nth(3).as_deref() == Some("reduced");
    let alpha: Vec<Tt> = alphabet(true).into_iter().filter(|t| !reduced || match t.kind {
        K_IDENT => true,
        K_GROUP => t.ch == b'(',
        K_PUNCT => b",<>:|=".contains(&t.ch),
        _ => false,
    }).collect();
    let shown = std::sync::atomic::AtomicU32::new(0);
    let mut tot = Tot::default();
    check(&[], &which, &mut tot, &shown);
    if n >= 1 { for &a in &alpha { check(&[a], &which, &mut tot, &shown); } }
    // work items = two-descriptor prefixes, handed out to the threads
    let mut work: Vec<Vec<Tt>> = vec![];
    if n >= 2 { for &a in &alpha { for &b in &alpha { work.push(vec![a, b]); } } }
    let next = std::sync::atomic::AtomicUsize::new(0);
    let nthreads = std::thread::available_parallelism().map(|x| x.get()).unwrap_or(4);
    let totals: Vec<Tot> = std::thread::scope(|s| {
        let hs: Vec<_> = (0..nthreads).map(|_| s.spawn(|| {
            let mut t = Tot::default();
            loop {
                let k = next.fetch_add(1, std::sync::atomic::Ordering::Relaxed);
                if k >= work.len() { break; }
                let mut p = work[k].clone();
                enumerate(&mut p, n, &alpha, &which, &mut t, &shown);
            }
            t
        })).collect();
        hs.into_iter().map(|h| h.join().unwrap()).collect()
    });
    for t in totals { tot.total += t.total; tot.accepted += t.accepted; tot.bad_oracle += t.bad_oracle; tot.bad_shim += t.bad_shim; tot.bad_render += t.bad_render; }
    println!("validated {} descriptor sequences of <= {} token trees over {} descriptors (every spacing): {} sequences of the C16 domain are argument lists; oracle-vs-syn disagreements {}, stubs-vs-real-syn disagreements {}, rendering failures {}",
             tot.total, n, alpha.len(), tot.accepted, tot.bad_oracle, tot.bad_shim, tot.bad_render);
    if tot.bad_oracle > 0 || tot.bad_shim > 0 || tot.bad_render > 0 { std::process::exit(1); }
}
