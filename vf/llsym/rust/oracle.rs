// Reference oracle for C03: a restatement of rustc_parse_format::Parser (ParseMode::Format) in plain loop-and-index
// Rust, plus the `format_args!` post-check that matters here (unknown type word).  It is trusted base, so it is pinned
// against the real rustc_parse_format (nightly's rustc-dev) by `validator/` on every string up to a length bound.
//
// The first error ends the parse: every recovery path of the real parser only adds errors, and a literal with an
// error is rejected by `format_args!`, which is all the oracle has to say about it.

use unicode_xid::UnicodeXID;

pub const MAXPH: usize = 6;

/// argument kinds
pub const K_IMPLICIT: u8 = 0; // `pos` = resolved index of the implicit argument
pub const K_INDEX: u8 = 1; // `a` = explicit index
pub const K_NAME: u8 = 2; // `a..b` = byte range of the identifier in the literal

/// presence bits
pub const F_ALIGN: u8 = 1;
pub const F_SIGN: u8 = 2;
pub const F_ALT: u8 = 4;
pub const F_ZERO: u8 = 8;
pub const F_WIDTH: u8 = 16;
pub const F_PREC: u8 = 32;
pub const F_FILL: u8 = 64;

#[derive(Clone, Copy, PartialEq, Eq)]
pub struct Ph {
    pub kind: u8,
    pub a: usize,
    pub b: usize,
    pub pos: usize,
    pub ty: u8,
    pub flags: u8,
}
pub const PH0: Ph = Ph { kind: 0, a: 0, b: 0, pos: 0, ty: 0, flags: 0 };

pub struct Res {
    /// `format_args!` accepts the literal (as far as the literal alone decides)
    pub ok: bool,
    pub n: usize,
    pub ph: [Ph; MAXPH],
    /// byte offset just after the closing brace of the first placeholder (0 if there is none)
    pub first_end: usize,
    /// byte offset of the opening brace of the first placeholder
    pub first_start: usize,
}

struct P<'a> {
    s: &'a [u8],
    i: usize,
    err: bool,
    curarg: usize,
}

/// decode one char of a valid UTF-8 string
#[inline]
fn dec(s: &[u8], i: usize) -> Option<(char, usize)> {
    if i >= s.len() {
        return None;
    }
    let b0 = s[i] as u32;
    if b0 < 0x80 {
        return Some((b0 as u8 as char, 1));
    }
    if b0 < 0xE0 {
        let c = ((b0 & 0x1F) << 6) | (s[i + 1] as u32 & 0x3F);
        return Some((char::from_u32(c).unwrap_or('\u{fffd}'), 2));
    }
    if b0 < 0xF0 {
        let c = ((b0 & 0x0F) << 12) | ((s[i + 1] as u32 & 0x3F) << 6) | (s[i + 2] as u32 & 0x3F);
        return Some((char::from_u32(c).unwrap_or('\u{fffd}'), 3));
    }
    let c = ((b0 & 0x07) << 18) | ((s[i + 1] as u32 & 0x3F) << 12) | ((s[i + 2] as u32 & 0x3F) << 6) | (s[i + 3] as u32 & 0x3F);
    Some((char::from_u32(c).unwrap_or('\u{fffd}'), 4))
}

#[inline]
fn is_id_start(c: char) -> bool {
    c == '_' || c.is_xid_start()
}
#[inline]
fn is_id_continue(c: char) -> bool {
    c.is_xid_continue()
}

impl<'a> P<'a> {
    #[inline]
    fn peek(&self) -> Option<(char, usize)> {
        dec(self.s, self.i)
    }
    #[inline]
    fn peek_ahead(&self) -> Option<char> {
        let (_, w) = dec(self.s, self.i)?;
        dec(self.s, self.i + w).map(|x| x.0)
    }
    #[inline]
    fn consume(&mut self, c: char) -> bool {
        match self.peek() {
            Some((d, w)) if d == c => {
                self.i += w;
                true
            }
            _ => false,
        }
    }
    fn ws(&mut self) {
        while let Some((c, w)) = self.peek() {
            if c.is_whitespace() {
                self.i += w
            } else {
                break;
            }
        }
    }
    /// `Parser::integer`: a u16; overflow is an error
    fn integer(&mut self) -> Option<usize> {
        let mut cur: u16 = 0;
        let mut found = false;
        let mut overflow = false;
        while let Some((c, w)) = self.peek() {
            if let Some(d) = c.to_digit(10) {
                self.i += w;
                let (t, o1) = cur.overflowing_mul(10);
                let (t, o2) = t.overflowing_add(d as u16);
                if o1 || o2 {
                    overflow = true;
                }
                cur = t;
                found = true;
            } else {
                break;
            }
        }
        if overflow {
            self.err = true;
        }
        if found {
            Some(cur as usize)
        } else {
            None
        }
    }
    /// `Parser::word`: (start, end) byte range, empty if the next char does not start an identifier; `_` is an error
    fn word(&mut self) -> (usize, usize) {
        let start = self.i;
        match self.peek() {
            Some((c, w)) if is_id_start(c) => {
                self.i += w;
            }
            _ => return (start, start),
        }
        while let Some((c, w)) = self.peek() {
            if is_id_continue(c) {
                self.i += w
            } else {
                break;
            }
        }
        if self.i - start == 1 && self.s[start] == b'_' {
            self.err = true;
        }
        (start, self.i)
    }
    /// `Parser::count`: true if a count is present
    fn count(&mut self) -> bool {
        if self.integer().is_some() {
            self.consume('$');
            return true;
        }
        let start = self.i;
        let e0 = self.err;
        let (a, b) = self.word();
        if a == b {
            return false;
        }
        if self.consume('$') {
            true
        } else {
            // the word belongs to the type: not an error here even if it is `_` (it is reported when re-read)
            self.i = start;
            self.err = e0;
            false
        }
    }
    fn position(&mut self, out: &mut Ph) -> bool {
        if let Some(n) = self.integer() {
            out.kind = K_INDEX;
            out.a = n;
            return true;
        }
        match self.peek() {
            Some((c, _)) if is_id_start(c) => {
                let (a, b) = self.word();
                // `r#ident` recovery: always an error
                if b - a == 1 && self.s[a] == b'r' {
                    if let Some(('#', _)) = self.peek() {
                        if self.peek_ahead().map_or(false, is_id_start) {
                            self.err = true;
                        }
                    }
                }
                out.kind = K_NAME;
                out.a = a;
                out.b = b;
                true
            }
            _ => false,
        }
    }
    fn format(&mut self, out: &mut Ph) {
        out.ty = 0;
        out.flags = 0;
        if !self.consume(':') {
            return;
        }
        // fill: any char followed by an alignment char
        if let Some((_, w)) = self.peek() {
            if let Some(n) = self.peek_ahead() {
                if n == '<' || n == '^' || n == '>' {
                    self.i += w;
                    out.flags |= F_FILL;
                }
            }
        }
        if self.consume('<') || self.consume('>') || self.consume('^') {
            out.flags |= F_ALIGN;
        }
        if self.consume('+') || self.consume('-') {
            out.flags |= F_SIGN;
        }
        if self.consume('#') {
            out.flags |= F_ALT;
        }
        let mut havewidth = false;
        if self.consume('0') {
            if self.consume('$') {
                out.flags |= F_WIDTH;
                havewidth = true;
            } else {
                out.flags |= F_ZERO;
            }
        }
        if !havewidth && self.count() {
            out.flags |= F_WIDTH;
        }
        if self.consume('.') {
            if self.consume('*') {
                out.flags |= F_PREC;
                self.curarg += 1;
            } else if self.count() {
                out.flags |= F_PREC;
            }
        }
        // type
        if self.consume('x') {
            out.ty = if self.consume('?') { 2 } else { 5 };
        } else if self.consume('X') {
            out.ty = if self.consume('?') { 3 } else { 6 };
        } else if self.consume('?') {
            out.ty = 1;
            if let Some((c, _)) = self.peek() {
                if c == '#' || c == 'x' || c == 'X' {
                    self.err = true;
                }
            }
        } else {
            let (a, b) = self.word();
            let w = &self.s[a..b];
            // format_args!: "unknown format trait"
            out.ty = match w {
                b"" => 0,
                b"o" => 4,
                b"p" => 7,
                b"b" => 8,
                b"e" => 9,
                b"E" => 10,
                _ => {
                    self.err = true;
                    0
                }
            };
        }
    }
    fn argument(&mut self, out: &mut Ph) {
        let have_pos = self.position(out);
        self.ws();
        self.format(out);
        if !have_pos {
            out.kind = K_IMPLICIT;
            out.pos = self.curarg;
            self.curarg += 1;
        }
    }
}

pub fn reference(s: &[u8]) -> Res {
    let mut r = Res { ok: false, n: 0, ph: [PH0; MAXPH], first_end: 0, first_start: 0 };
    let mut p = P { s, i: 0, err: false, curarg: 0 };
    while let Some((c, w)) = p.peek() {
        if c == '{' {
            let open = p.i;
            p.i += w;
            if p.consume('{') {
                continue;
            }
            let mut ph = PH0;
            p.argument(&mut ph);
            p.ws();
            if !p.consume('}') {
                return r;
            }
            if p.err {
                return r;
            }
            if r.n < MAXPH {
                r.ph[r.n] = ph;
            }
            if r.n == 0 {
                r.first_start = open;
                r.first_end = p.i;
            }
            r.n += 1;
        } else if c == '}' {
            p.i += w;
            if !p.consume('}') {
                return r;
            }
        } else {
            p.i += w;
        }
    }
    r.ok = !p.err;
    r
}
