// Wrapper compiled to LLVM IR (for llsym) and to a native library / binary (for replay).  `PARSING_RS` and the
// `placeholder` module are spliced in by the generator from the working tree of /repo.
#![allow(dead_code, unused, clippy::all)]

#[path = "@PARSING_RS@"]
mod parsing;

mod placeholder {
    use super::parsing;
@PLACEHOLDER_ITEMS@
    /// (kind, index-or-0, has_modifiers, first byte of trait name, trait name length)
    pub fn summary(s: &str, out: &mut [(u8, usize, bool, u8, u8); super::oracle::MAXPH]) -> usize {
        let v = Placeholder::parse_fmt_string(s);
        let mut n = 0;
        for p in v.iter() {
            if n < out.len() {
                out[n] = match &p.arg {
                    Parameter::Positional(i) => (1, *i, p.has_modifiers, p.trait_name.as_bytes()[0], p.trait_name.len() as u8),
                    Parameter::Named(name) => (2, name.len(), p.has_modifiers, p.trait_name.as_bytes()[0], p.trait_name.len() as u8),
                };
            }
            n += 1;
        }
        n
    }
}

#[path = "@ORACLE_RS@"]
pub mod oracle;

use oracle::*;
use parsing::*;

fn ty_code(t: Type) -> u8 {
    match t {
        Type::Display => 0,
        Type::Debug => 1,
        Type::LowerDebug => 2,
        Type::UpperDebug => 3,
        Type::Octal => 4,
        Type::LowerHex => 5,
        Type::UpperHex => 6,
        Type::Pointer => 7,
        Type::Binary => 8,
        Type::LowerExp => 9,
        Type::UpperExp => 10,
    }
}
/// (first byte, length) of the trait name std uses for a type code
fn trait_sig(ty: u8) -> (u8, u8) {
    match ty {
        0 => (b'D', 7),            // Display
        1 | 2 | 3 => (b'D', 5),    // Debug
        4 => (b'O', 5),            // Octal
        5 => (b'L', 8),            // LowerHex
        6 => (b'U', 8),            // UpperHex
        7 => (b'P', 7),            // Pointer
        8 => (b'B', 6),            // Binary
        9 => (b'L', 8),            // LowerExp
        _ => (b'U', 8),            // UpperExp
    }
}

fn spec_flags(sp: &FormatSpec<'_>) -> u8 {
    let mut f = 0u8;
    if let Some((fill, _)) = sp.align {
        f |= F_ALIGN;
        if fill.is_some() {
            f |= F_FILL;
        }
    }
    if sp.sign.is_some() {
        f |= F_SIGN;
    }
    if sp.alternate.is_some() {
        f |= F_ALT;
    }
    if sp.zero_padding.is_some() {
        f |= F_ZERO;
    }
    if sp.width.is_some() {
        f |= F_WIDTH;
    }
    if sp.precision.is_some() {
        f |= F_PREC;
    }
    f
}

/// Disagreement codes (0 = agreement).
///  1  std accepts, derive_more's parser returns None
///  2  different number of placeholders (format_string or parse_fmt_string)
///  3  different argument (kind, index, or identifier slice)
///  4  different formatting type / trait
///  5  different presence of fill / alignment / sign / # / 0 / width / precision
///  6  implicit argument resolved to a different position (parse_fmt_string)
///  8  std rejects, but `format()` takes the whole literal as one bare placeholder: it would be delegated without
///     ever reaching `format_args!`, i.e. silently accepted
/// 10  the literal starts with a placeholder std accepts, but `format()` - which decides whether the whole attribute is one
///     bare, delegated placeholder - consumed a different extent than that placeholder (e.g. swallowed trailing text)
///  9  (observation only, not a violation) std rejects, derive_more's parser accepts; the literal still reaches
///     `format_args!`, which rejects it
pub fn compare(s: &str, base: *const u8, digest: &mut [u8; 64]) -> u32 {
    let r = reference(s.as_bytes());
    let d = format_string(s);
    let mut summ = [(0u8, 0usize, false, 0u8, 0u8); MAXPH];
    let nsum = placeholder::summary(s, &mut summ);
    digest[0] = r.ok as u8;
    digest[1] = r.n as u8;
    digest[2] = d.is_some() as u8;
    digest[4] = nsum as u8;
    match d {
        None => {
            if r.ok {
                return 1;
            }
            0
        }
        Some(fs) => {
            digest[3] = fs.formats.len() as u8;
            if !r.ok {
                if let Some((rest, f)) = format(s) {
                    if rest.is_empty() {
                        let bare = match f.spec {
                            None => true,
                            Some(sp) => spec_flags(&sp) == 0 && sp.ty.is_trivial(),
                        };
                        if bare {
                            return 8;
                        }
                    }
                }
                return 9;
            }
            if fs.formats.len() != r.n || nsum != r.n {
                return 2;
            }
            if r.n >= 1 && r.first_start == 0 {
                match format(s) {
                    Some((rest, _)) => {
                        if rest.len() != s.len() - r.first_end {
                            return 10;
                        }
                    }
                    None => return 10,
                }
            }
            let mut i = 0;
            while i < fs.formats.len() && i < MAXPH {
                let f = &fs.formats[i];
                let e = &r.ph[i];
                let (ty, flags) = match &f.spec {
                    None => (0, 0),
                    Some(sp) => (ty_code(sp.ty), spec_flags(sp)),
                };
                digest[8 + 4 * i] = ty;
                digest[9 + 4 * i] = flags;
                let (sk, sidx, _smod, st0, stl) = summ[i];
                match f.arg {
                    None => {
                        digest[10 + 4 * i] = 0;
                        digest[11 + 4 * i] = sidx as u8;
                        if e.kind != K_IMPLICIT {
                            return 3;
                        }
                        // derive_more resolves implicit arguments in parse_fmt_string
                        if sk != 1 || sidx != e.pos {
                            return 6;
                        }
                    }
                    Some(Argument::Integer(n)) => {
                        digest[10 + 4 * i] = 1;
                        digest[11 + 4 * i] = n as u8;
                        if e.kind != K_INDEX || e.a != n || sk != 1 || sidx != n {
                            return 3;
                        }
                    }
                    Some(Argument::Identifier(id)) => {
                        digest[10 + 4 * i] = 2;
                        let off = id.as_ptr() as usize - base as usize;
                        digest[11 + 4 * i] = off as u8;
                        if e.kind != K_NAME || e.a != off || e.b - e.a != id.len() || sk != 2 || sidx != id.len() {
                            return 3;
                        }
                    }
                }
                if ty != e.ty || (st0, stl) != trait_sig(e.ty) {
                    return 4;
                }
                if flags != e.flags {
                    return 5;
                }
                i += 1;
            }
            0
        }
    }
}

/// Entry point explored by llsym and called natively for replay.  `digest` receives 64 bytes describing what both
/// parsers saw (used to validate llsym's execution against the native one).
#[no_mangle]
pub unsafe extern "C" fn probe(ptr: *const u8, len: usize, digest: *mut u8) -> u32 {
    let bytes = core::slice::from_raw_parts(ptr, len);
    let s = core::str::from_utf8_unchecked(bytes);
    let mut d = [0u8; 64];
    let code = compare(s, ptr, &mut d);
    core::ptr::copy_nonoverlapping(d.as_ptr(), digest, 64);
    code
}
