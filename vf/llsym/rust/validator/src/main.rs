// Pins vf/llsym/rust/oracle.rs against the real rustc_parse_format (nightly's rustc-dev component):
// every string of up to N characters over the alphabet is parsed by both; verdicts and placeholders must coincide.
#![feature(rustc_private)]
extern crate rustc_driver;
extern crate rustc_parse_format;

#[path = "../../oracle.rs"]
mod oracle;

use oracle::*;
use rustc_parse_format as rpf;

fn real(s: &str) -> (bool, Vec<Ph>) {
    let mut p = rpf::Parser::new(s, None, None, false, rpf::ParseMode::Format);
    let mut phs = vec![];
    let base = s.as_ptr() as usize;
    let mut unknown_trait = false;
    while let Some(piece) = p.next() {
        if let rpf::Piece::NextArgument(arg) = piece {
            let mut ph = PH0;
            match arg.position {
                rpf::Position::ArgumentImplicitlyIs(i) => {
                    ph.kind = K_IMPLICIT;
                    ph.pos = i;
                }
                rpf::Position::ArgumentIs(i) => {
                    ph.kind = K_INDEX;
                    ph.a = i;
                }
                rpf::Position::ArgumentNamed(n) => {
                    ph.kind = K_NAME;
                    ph.a = n.as_ptr() as usize - base;
                    ph.b = ph.a + n.len();
                }
            }
            let f = &arg.format;
            if f.fill.is_some() {
                ph.flags |= F_FILL;
            }
            if f.align != rpf::Alignment::AlignUnknown {
                ph.flags |= F_ALIGN;
            }
            if f.sign.is_some() {
                ph.flags |= F_SIGN;
            }
            if f.alternate {
                ph.flags |= F_ALT;
            }
            if f.zero_pad {
                ph.flags |= F_ZERO;
            }
            if f.width != rpf::Count::CountImplied {
                ph.flags |= F_WIDTH;
            }
            if f.precision != rpf::Count::CountImplied {
                ph.flags |= F_PREC;
            }
            ph.ty = match (f.ty, f.debug_hex) {
                ("", _) => 0,
                ("?", None) => 1,
                ("?", Some(rpf::DebugHex::Lower)) => 2,
                ("?", Some(rpf::DebugHex::Upper)) => 3,
                ("o", _) => 4,
                ("x", _) => 5,
                ("X", _) => 6,
                ("p", _) => 7,
                ("b", _) => 8,
                ("e", _) => 9,
                ("E", _) => 10,
                _ => {
                    // format_args!: "unknown format trait"
                    unknown_trait = true;
                    0
                }
            };
            phs.push(ph);
        }
    }
    (p.errors.is_empty() && !unknown_trait, phs)
}

fn check(s: &str, bad: &mut u64, shown: &mut u32) {
    let (ok, phs) = real(s);
    let r = reference(s.as_bytes());
    let mut same = ok == r.ok;
    if same && ok {
        same = phs.len() == r.n && phs.iter().zip(r.ph.iter()).all(|(a, b)| a == b);
    }
    if !same {
        *bad += 1;
        if *shown < 20 {
            *shown += 1;
            println!("DISAGREE {:?}: rustc ok={} n={} / oracle ok={} n={}", s, ok, phs.len(), r.ok, r.n);
        }
    }
}

fn main() {
    let n: usize = std::env::args().nth(1).and_then(|x| x.parse().ok()).unwrap_or(4);
    // alphabet: the characters the grammar distinguishes + one representative of every other class
    let alphabet: Vec<char> = "{}:$.*?#+-<^>019_xXopbeEaZqr \t\n\u{b}\u{c}\r\u{0}é\u{301}€\u{1F980}\u{a0}".chars().collect();
    let mut total: u64 = 0;
    let mut bad: u64 = 0;
    let mut shown = 0u32;
    let mut idx = vec![0usize; n];
    for len in 0..=n {
        for i in idx.iter_mut() {
            *i = 0;
        }
        loop {
            let s: String = idx[..len].iter().map(|&i| alphabet[i]).collect();
            check(&s, &mut bad, &mut shown);
            total += 1;
            // next
            let mut k = 0;
            loop {
                if k == len {
                    break;
                }
                idx[k] += 1;
                if idx[k] < alphabet.len() {
                    break;
                }
                idx[k] = 0;
                k += 1;
            }
            if k == len {
                break;
            }
        }
    }
    // longer, structured literals
    let extra = ["{a:é^+#08.1$x?}", "{:.*}{}", "{0:.*} {} {}", "{:1$.2$}", "{x:>10.3e} {{}} {y}", "{:}<}", "{65535}", "{65536}", "{:65536}",
                 "{:.65536}", "{0 :?}", "{ :? }", "{:? }", "{:x ?}", "{r#a}", "{_}", "{_a}", "{:_$}", "{:a$.b$?}", "{:?#}", "{:#?}", "{a.b}", "{a=}",
                 "{:>>}", "{:}}}", "{:{<}", "{", "}", "{{}", "{}}", "text {} {1:?} {name:e}", "{:0$}", "{:00$}", "{:01$}", "{:+0}", "{:-}", "{:é<5}"];
    for s in extra {
        check(s, &mut bad, &mut shown);
        total += 1;
    }
    // the literals of the constrained passes of the exploration (structured / placeholder DFA languages, digit templates), one per line
    let mut from_file = 0u64;
    if let Some(path) = std::env::args().nth(2) {
        if let Ok(text) = std::fs::read_to_string(&path) {
            for line in text.split('\n') {
                check(line, &mut bad, &mut shown);
                total += 1;
                from_file += 1;
            }
        }
    }
    println!("validated {} strings (all strings of <= {} characters over a {}-character alphabet + {} structured + {} literals of the constrained passes), {} disagreements",
             total, n, alphabet.len(), extra.len(), from_file, bad);
    if bad > 0 {
        std::process::exit(1);
    }
}
