"""Builds the wrapper crates of engine L from the working tree of /repo: LLVM IR for llsym + a cdylib for native replay."""
import glob
import os
import re
import shutil
import subprocess

from .. import common

HERE = os.path.dirname(os.path.abspath(__file__))
RUST = os.path.join(HERE, "rust")

CARGO_TOML = """[package]
name = "%(name)s"
version = "0.0.0"
edition = "2021"

[lib]
crate-type = ["staticlib", "cdylib"]
path = "src/lib.rs"

[dependencies]
%(deps)s

[workspace]

[profile.release]
panic = "abort"
opt-level = 3
codegen-units = 1
lto = true
overflow-checks = true
debug-assertions = false
"""


def cut_item(src, header_re):
    """Return the source text of the item whose header line matches header_re, including preceding doc comments and
    attributes, through its matching closing brace."""
    lines = src.split("\n")
    for i, l in enumerate(lines):
        if re.match(header_re, l):
            start = i
            while start > 0 and (lines[start - 1].lstrip().startswith("///") or lines[start - 1].lstrip().startswith("#[")):
                start -= 1
            depth = 0
            seen = False
            for j in range(i, len(lines)):
                # crude but adequate: the items cut here contain no braces inside strings other than format literals
                depth += lines[j].count("{") - lines[j].count("}")
                if "{" in lines[j]:
                    seen = True
                if seen and depth == 0:
                    return "\n".join(lines[start:j + 1])
            return None
    return None


def placeholder_items():
    """`Parameter`, its From impl, `Placeholder` and `Placeholder::parse_fmt_string` cut verbatim out of
    impl/src/fmt/mod.rs (they depend only on `parsing::*` and alloc)."""
    src = open(os.path.join(common.REPO, "impl/src/fmt/mod.rs")).read()
    items = []
    for hdr in (r"^enum Parameter\b", r"^impl<'a> From<parsing::Argument<'a>> for Parameter\b", r"^struct Placeholder\b",
                r"^impl Placeholder\b"):
        it = cut_item(src, hdr)
        if it is None:
            return None
        items.append(it)
    text = "\n\n".join(items)
    text = text.replace("\nenum Parameter", "\npub enum Parameter").replace("\nstruct Placeholder", "\npub struct Placeholder")
    text = re.sub(r"\n    (arg|has_modifiers|trait_name):", r"\n    pub \1:", text)
    text = text.replace("    fn parse_fmt_string(", "    pub fn parse_fmt_string(")
    return "\n".join("    " + l if l.strip() else l for l in text.split("\n"))


def unicode_xid_version():
    lock = open(os.path.join(common.REPO, "Cargo.lock")).read()
    m = re.search(r'name = "unicode-xid"\nversion = "([^"]+)"', lock)
    return m.group(1) if m else "0.2"


def build_fmt_wrapper(scratch):
    """Returns dict(ll=path, so=path, degraded=bool, build_s=float) or raises RuntimeError(log)."""
    import time
    t0 = time.time()
    d = os.path.join(scratch, "fmtprobe")
    os.makedirs(os.path.join(d, "src"))
    items = placeholder_items()
    if items is None:
        raise RuntimeError("could not cut Placeholder::parse_fmt_string out of impl/src/fmt/mod.rs")
    tpl = open(os.path.join(RUST, "probe_fmt.rs")).read()
    tpl = tpl.replace("@PARSING_RS@", os.path.join(common.REPO, "impl/src/fmt/parsing.rs"))
    tpl = tpl.replace("@ORACLE_RS@", os.path.join(RUST, "oracle.rs"))
    tpl = tpl.replace("@PLACEHOLDER_ITEMS@", items)
    open(os.path.join(d, "src/lib.rs"), "w").write(tpl)
    open(os.path.join(d, "Cargo.toml"), "w").write(CARGO_TOML % dict(name="fmtprobe", deps='unicode-xid = "=%s"' % unicode_xid_version()))
    os.makedirs(os.path.join(d, ".cargo"))
    open(os.path.join(d, ".cargo/config.toml"), "w").write("[net]\noffline = true\n")
    env = dict(os.environ, CARGO_NET_OFFLINE="true", CARGO_TERM_COLOR="never")
    env.pop("RUSTFLAGS", None)
    p = subprocess.run(["cargo", "rustc", "--release", "--offline", "--lib", "--", "--emit=llvm-ir", "-C", "no-vectorize-loops",
                        "-C", "no-vectorize-slp"], cwd=d, env=env, capture_output=True, text=True)
    if p.returncode != 0:
        raise RuntimeError(p.stdout + p.stderr)
    lls = sorted(glob.glob(os.path.join(d, "target/release/deps/*.ll")), key=os.path.getsize)
    sos = glob.glob(os.path.join(d, "target/release/*.so")) + glob.glob(os.path.join(d, "target/release/deps/*.so"))
    if not lls or not sos:
        raise RuntimeError("build produced no .ll / .so: " + p.stderr[-2000:])
    return dict(ll=lls[-1], so=sos[0], dir=d, build_s=time.time() - t0, lib_rs=os.path.join(d, "src/lib.rs"))


def build_dbg_wrapper(scratch):
    """Wrapper for the pretty-printing half of C06: depends on the working-tree derive_more (debug feature)."""
    import time
    t0 = time.time()
    d = os.path.join(scratch, "dbgprobe")
    os.makedirs(os.path.join(d, "src"))
    shutil.copy(os.path.join(RUST, "probe_dbg.rs"), os.path.join(d, "src/lib.rs"))
    open(os.path.join(d, "Cargo.toml"), "w").write(CARGO_TOML % dict(
        name="dbgprobe", deps='derive_more = { path = "%s", default-features = false, features = ["debug"] }' % common.REPO))
    lock = os.path.join(common.REPO, "Cargo.lock")
    if os.path.exists(lock):
        shutil.copy(lock, os.path.join(d, "Cargo.lock"))
    os.makedirs(os.path.join(d, ".cargo"))
    open(os.path.join(d, ".cargo/config.toml"), "w").write("[net]\noffline = true\n")
    env = dict(os.environ, CARGO_NET_OFFLINE="true", CARGO_TERM_COLOR="never")
    env.pop("RUSTFLAGS", None)
    p = subprocess.run(["cargo", "rustc", "--release", "--offline", "--lib", "--", "--emit=llvm-ir", "-C", "no-vectorize-loops",
                        "-C", "no-vectorize-slp"], cwd=d, env=env, capture_output=True, text=True)
    if p.returncode != 0:
        raise RuntimeError(p.stdout + p.stderr)
    lls = sorted(glob.glob(os.path.join(d, "target/release/deps/dbgprobe*.ll")), key=os.path.getsize)
    sos = glob.glob(os.path.join(d, "target/release/libdbgprobe.so"))
    if not lls or not sos:
        raise RuntimeError("build produced no .ll / .so: " + p.stderr[-2000:])
    return dict(ll=lls[-1], so=sos[0], dir=d, build_s=time.time() - t0)


def fmtarg_items():
    src = open(os.path.join(common.REPO, "impl/src/fmt/mod.rs")).read()
    items = []
    for hdr in (r"^struct FmtArgument\b", r"^impl Parse for FmtArgument\b", r"^impl ToTokens for FmtArgument\b"):
        it = cut_item(src, hdr)
        if it is None:
            return None
        items.append(it)
    text = "\n\n".join(items)
    text = text.replace("\nstruct FmtArgument", "\npub struct FmtArgument")
    text = re.sub(r"\n    (alias|expr):", r"\n    pub \1:", text)
    return "\n".join("    " + l if l.strip() else l for l in text.split("\n"))


def build_scan_wrapper(scratch):
    import time
    t0 = time.time()
    d = os.path.join(scratch, "scanprobe")
    S = os.path.join(RUST, "scan")
    os.makedirs(os.path.join(d, "src"))
    for sh in ("shim_pm2", "shim_quote", "shim_syn"):
        shutil.copytree(os.path.join(S, sh), os.path.join(d, sh))
    items = fmtarg_items()
    if items is None:
        raise RuntimeError("could not cut FmtArgument out of impl/src/fmt/mod.rs")
    tpl = open(os.path.join(S, "probe_scan.rs")).read()
    tpl = tpl.replace("@PARSING_RS@", os.path.join(common.REPO, "impl/src/parsing.rs"))
    tpl = tpl.replace("@TOKENS_RS@", os.path.join(S, "tokens.rs")).replace("@ORACLE_RS@", os.path.join(S, "scan_oracle.rs"))
    tpl = tpl.replace("@FMTARG_ITEMS@", items)
    open(os.path.join(d, "src/lib.rs"), "w").write(tpl)
    deps = 'syn = { path = "shim_syn" }\nquote = { path = "shim_quote" }\nproc-macro2 = { path = "shim_pm2" }'
    open(os.path.join(d, "Cargo.toml"), "w").write(CARGO_TOML % dict(name="scanprobe", deps=deps))
    os.makedirs(os.path.join(d, ".cargo"))
    open(os.path.join(d, ".cargo/config.toml"), "w").write("[net]\noffline = true\n")
    env = dict(os.environ, CARGO_NET_OFFLINE="true", CARGO_TERM_COLOR="never")
    env.pop("RUSTFLAGS", None)
    p = subprocess.run(["cargo", "rustc", "--release", "--offline", "--lib", "--", "--emit=llvm-ir", "-C", "no-vectorize-loops",
                        "-C", "no-vectorize-slp"], cwd=d, env=env, capture_output=True, text=True)
    if p.returncode != 0:
        raise RuntimeError(p.stdout + p.stderr)
    lls = sorted(glob.glob(os.path.join(d, "target/release/deps/scanprobe*.ll")), key=os.path.getsize)
    sos = glob.glob(os.path.join(d, "target/release/libscanprobe.so"))
    if not lls or not sos:
        raise RuntimeError("build produced no .ll / .so: " + p.stderr[-2000:])
    return dict(ll=lls[-1], so=sos[0], dir=d, build_s=time.time() - t0)


def build_scan_validator(scratch, wrapper_dir):
    d = os.path.join(scratch, "scanvalidator")
    os.makedirs(os.path.join(d, "src"))
    # the wrapper as an rlib (LTO, which the IR build needs, is not available for rlibs: separate copy)
    rl = os.path.join(scratch, "scanprobe_rlib")
    shutil.copytree(wrapper_dir, rl, ignore=shutil.ignore_patterns("target"))
    ct = open(os.path.join(rl, "Cargo.toml")).read().replace('crate-type = ["staticlib", "cdylib"]', 'crate-type = ["rlib"]')
    ct = ct[:ct.index("[profile.release]")]
    open(os.path.join(rl, "Cargo.toml"), "w").write(ct)
    wrapper_dir = rl
    main = open(os.path.join(RUST, "scan", "validator_main.rs")).read().replace("@PARSING_RS@", os.path.join(common.REPO, "impl/src/parsing.rs")).replace("@FMTARG_ITEMS@", fmtarg_items())
    open(os.path.join(d, "src/main.rs"), "w").write(main)
    lock = open(os.path.join(common.REPO, "Cargo.lock")).read()
    def ver(name):
        m = re.search(r'name = "%s"\nversion = "([^"]+)"' % re.escape(name), lock)
        return m.group(1)
    open(os.path.join(d, "Cargo.toml"), "w").write("""[package]
name = "scanvalidator"
version = "0.0.0"
edition = "2021"

[dependencies]
syn = { version = "=%s", features = ["full", "extra-traits"] }
proc-macro2 = "=%s"
quote = "=%s"
scanprobe = { path = "%s" }

[workspace]

[profile.release]
opt-level = 2
""" % (ver("syn"), ver("proc-macro2"), ver("quote"), wrapper_dir))
    os.makedirs(os.path.join(d, ".cargo"))
    open(os.path.join(d, ".cargo/config.toml"), "w").write("[net]\noffline = true\n")
    env = dict(os.environ, CARGO_NET_OFFLINE="true", CARGO_TERM_COLOR="never")
    env.pop("RUSTFLAGS", None)
    p = subprocess.run(["cargo", "build", "--release", "--offline"], cwd=d, env=env, capture_output=True, text=True)
    if p.returncode != 0:
        raise RuntimeError(p.stdout + p.stderr)
    return os.path.join(d, "target/release/scanvalidator")


def tc_items():
    """`FmtAttribute`, `FmtAttribute::transparent_call`, `FmtArgument` cut verbatim out of impl/src/fmt/mod.rs"""
    src = open(os.path.join(common.REPO, "impl/src/fmt/mod.rs")).read()
    st = cut_item(src, r"^struct FmtAttribute\b")
    tc = cut_item(src, r"^    fn transparent_call\(&self\)")
    fa = cut_item(src, r"^struct FmtArgument\b")
    ca = cut_item(src, r"^    fn contains_arg\(&self")
    pa = cut_item(src, r"^    fn placeholders_by_arg<")
    bt = cut_item(src, r"^    fn bounded_types<")
    fi = cut_item(src, r"^impl FmtArgument\b")
    ph = []
    for hdr in (r"^enum Parameter\b", r"^impl<'a> From<parsing::Argument<'a>> for Parameter\b", r"^struct Placeholder\b", r"^impl Placeholder\b"):
        ph.append(cut_item(src, hdr))
    if None in (st, tc, fa, ca, pa, fi, bt) or None in ph:
        return None
    text = st + "\n\nimpl FmtAttribute {\n" + tc + "\n\n" + ca + "\n\n" + pa + "\n\n" + bt + "\n}\n\n" + fa + "\n\n" + fi + "\n\n" + "\n\n".join(ph)
    # the cut methods are compiled whatever the cargo features of the real crate
    text = re.sub(r"\n\s*#\[cfg\(feature = \"[a-z_]+\"\)\]", "", text)
    return "\n".join("    " + l if l.strip() else l for l in text.split("\n"))


def build_tc_wrapper(scratch):
    import time
    t0 = time.time()
    d = os.path.join(scratch, "tcprobe")
    S = os.path.join(RUST, "scan")
    os.makedirs(os.path.join(d, "src"))
    for sh in ("shim_pm2", "shim_quote", "shim_syn"):
        shutil.copytree(os.path.join(S, sh), os.path.join(d, sh))
    items = tc_items()
    if items is None:
        raise RuntimeError("could not cut FmtAttribute / transparent_call / FmtArgument out of impl/src/fmt/mod.rs")
    tpl = open(os.path.join(RUST, "tc", "probe_tc.rs")).read()
    tpl = tpl.replace("@SCANNER_RS@", os.path.join(common.REPO, "impl/src/parsing.rs"))
    tpl = tpl.replace("@FMT_PARSING_RS@", os.path.join(common.REPO, "impl/src/fmt/parsing.rs"))
    tpl = tpl.replace("@ORACLE_RS@", os.path.join(RUST, "oracle.rs")).replace("@ITEMS@", items)
    open(os.path.join(d, "src/lib.rs"), "w").write(tpl)
    deps = ('syn = { path = "shim_syn" }\nquote = { path = "shim_quote" }\nproc-macro2 = { path = "shim_pm2" }\nunicode-xid = "=%s"' % unicode_xid_version())
    open(os.path.join(d, "Cargo.toml"), "w").write(CARGO_TOML % dict(name="tcprobe", deps=deps))
    os.makedirs(os.path.join(d, ".cargo"))
    open(os.path.join(d, ".cargo/config.toml"), "w").write("[net]\noffline = true\n")
    env = dict(os.environ, CARGO_NET_OFFLINE="true", CARGO_TERM_COLOR="never")
    env.pop("RUSTFLAGS", None)
    p = subprocess.run(["cargo", "rustc", "--release", "--offline", "--lib", "--", "--emit=llvm-ir", "-C", "no-vectorize-loops",
                        "-C", "no-vectorize-slp"], cwd=d, env=env, capture_output=True, text=True)
    if p.returncode != 0:
        raise RuntimeError(p.stdout + p.stderr)
    lls = sorted(glob.glob(os.path.join(d, "target/release/deps/tcprobe*.ll")), key=os.path.getsize)
    sos = glob.glob(os.path.join(d, "target/release/libtcprobe.so"))
    if not lls or not sos:
        raise RuntimeError("build produced no .ll / .so: " + p.stderr[-2000:])
    return dict(ll=lls[-1], so=sos[0], dir=d, build_s=time.time() - t0)
