"""Native execution of a wrapper's `probe(ptr, len, digest) -> u32` through ctypes, in a helper subprocess so that a
panic (the wrapper is built with panic=abort) kills the helper and not the check."""
import json
import os
import subprocess
import sys

HELPER = r'''
import ctypes, json, sys
lib = ctypes.CDLL(sys.argv[1])
div = int(sys.argv[2]) if len(sys.argv) > 2 else 1
extra = [int(x) for x in sys.argv[3:]]
import os
entry = getattr(lib, os.environ.get("LLSYM_ENTRY", "probe"))
entry.argtypes = [ctypes.c_char_p, ctypes.c_size_t, ctypes.c_char_p] + [ctypes.c_uint32] * len(extra)
entry.restype = ctypes.c_uint32
for line in sys.stdin:
    inp = bytes(json.loads(line))
    buf = ctypes.create_string_buffer(64)
    sys.stdout.write("BEGIN\n"); sys.stdout.flush()
    code = entry(inp, len(inp) // div, buf, *extra)
    sys.stdout.write(json.dumps({"code": code, "digest": list(buf.raw)}) + "\n"); sys.stdout.flush()
'''


def run_native(so, inputs, timeout_per_input=10.0, len_div=1, extra=(), each=False, entry="probe"):
    """inputs: list of bytes.  Returns list of dict(code, digest) | dict(abort=True, stderr=..) | dict(timeout=True).
    each=True: one helper process per input, each under timeout_per_input (for inputs suspected not to return)."""
    import os
    env = dict(os.environ, LLSYM_ENTRY=entry)
    if each:
        out = []
        for x in inputs:
            p = subprocess.Popen([sys.executable, "-c", HELPER, so, str(len_div)] + [str(v) for v in extra], stdin=subprocess.PIPE,
                                 stdout=subprocess.PIPE, stderr=subprocess.PIPE, text=True, env=env)
            try:
                so_, se_ = p.communicate(json.dumps(list(x)) + "\n", timeout=timeout_per_input)
                lines = [l for l in so_.split("\n") if l.startswith("{")]
                out.append(json.loads(lines[0]) if lines else {"abort": True, "stderr": se_[-600:], "returncode": p.returncode})
            except subprocess.TimeoutExpired:
                p.kill()
                p.communicate()
                out.append({"timeout": True})
        return out
    out = [None] * len(inputs)
    i = 0
    while i < len(inputs):
        p = subprocess.Popen([sys.executable, "-c", HELPER, so, str(len_div)] + [str(x) for x in extra], stdin=subprocess.PIPE, stdout=subprocess.PIPE,
                             stderr=subprocess.PIPE, text=True, env=env)
        payload = "".join(json.dumps(list(x)) + "\n" for x in inputs[i:])
        try:
            so_, se_ = p.communicate(payload, timeout=max(30.0, timeout_per_input * (len(inputs) - i)))
            timed_out = False
        except subprocess.TimeoutExpired:
            p.kill()
            so_, se_ = p.communicate()
            timed_out = True
        lines = so_.split("\n")
        k = i
        j = 0
        while j < len(lines):
            if lines[j] == "BEGIN":
                if j + 1 < len(lines) and lines[j + 1].startswith("{"):
                    out[k] = json.loads(lines[j + 1])
                    k += 1
                    j += 2
                    continue
                # began but never finished: this input killed the helper
                out[k] = {"timeout": True} if timed_out else {"abort": True, "stderr": se_[-600:], "returncode": p.returncode}
                k += 1
                break
            j += 1
        if k == i:
            # helper died before processing anything
            out[k] = {"abort": True, "stderr": se_[-600:], "returncode": p.returncode}
            k += 1
        i = k
    return out
