"""Parallel path exploration on top of engine.py: the DFS forks OS processes at symbolic branch points while worker
slots are free, every process writes its finished paths to its own JSON-lines file."""
import collections
import json
import multiprocessing
import os
import sys
import time

import z3

from . import engine as E

sys.setrecursionlimit(20000)


class ParallelExec(E.Exec):
    def __init__(self, mod, outdir, slots, max_steps=400000, keep_ret=True):
        super().__init__(mod, max_steps=max_steps)
        self.outdir = outdir
        self.slots = slots            # multiprocessing.Semaphore with (workers - 1) permits
        self.keep_ret = keep_ret
        self.children = []
        self.is_child = False
        self.outf = None
        self.describe = None          # callable(kind, detail, st, model) -> dict written per path

    def _open(self):
        if self.outf is None:
            self.outf = open(os.path.join(self.outdir, "paths-%d.jsonl" % os.getpid()), "w")

    def finish(self, st, e):
        self.stats['paths'] += 1
        self.stats['end_' + e.kind] += 1
        if e.kind == 'infeasible':
            return
        m = st.model
        if m is None:
            m = self.model(st)
        rec = self.describe(e.kind, e.detail, st, m)
        self._open()
        self.outf.write(json.dumps(rec) + "\n")

    def run_parallel(self, fname, setup):
        try:
            return self._run_parallel(fname, setup)
        except BaseException:
            if self.is_child:
                # a forked worker must never run the parent's exit handlers (they remove the scratch directory)
                import traceback
                traceback.print_exc()
                sys.stderr.flush()
                os._exit(4)
            raise

    def _run_parallel(self, fname, setup):
        st = E.State()
        self.root = st
        fn = self.mod.funcs[fname]
        fn.parse()
        regs = {pname: 0 for (_, pname) in fn.params}
        st.frames.append(E.Frame(fn, regs))
        setup(self, st)
        work = [st]
        while work:
            st = work.pop()
            try:
                forks = self.step_until_fork(st)
            except E.Event as e:
                self.finish(st, e)
                continue
            # hand sub-trees to fresh processes while slots are free
            while len(forks) > 1 and self.slots.acquire(block=False):
                child_state = forks.pop()
                sys.stdout.flush()
                sys.stderr.flush()
                if self.outf:
                    self.outf.flush()
                pid = os.fork()
                if pid == 0:
                    self.is_child = True
                    self.children = []
                    self.outf = None
                    self.stats = collections.Counter()
                    self.solver_time = 0.0
                    work = [child_state]
                    forks = []
                    break
                self.children.append(pid)
            work.extend(forks)
        # done with this process's share
        self._open()
        self.outf.write(json.dumps({"stats": dict(self.stats), "solver_s": self.solver_time, "pid": os.getpid()}) + "\n")
        self.outf.close()
        ok = True
        for pid in self.children:
            _, status = os.waitpid(pid, 0)
            if status != 0:
                ok = False
        if self.is_child:
            self.slots.release()
            os._exit(0 if ok else 3)
        return ok


def collect(outdir):
    """Merge the per-process files: (records, stats, solver_s)"""
    recs, stats, solver_s = [], collections.Counter(), 0.0
    for fn in sorted(os.listdir(outdir)):
        if not fn.startswith("paths-"):
            continue
        for line in open(os.path.join(outdir, fn)):
            r = json.loads(line)
            if "stats" in r:
                stats.update(r["stats"])
                solver_s += r["solver_s"]
            else:
                recs.append(r)
    return recs, stats, solver_s


def utf8_alphabet_constraint(bs, n, ascii_allowed, multibyte):
    """bytes[0..n] is a sequence of characters, each either an ASCII byte satisfying ascii_allowed(b) or one of `multibyte`"""
    V = [None] * (n + 1)
    V[n] = z3.BoolVal(True)
    for i in range(n - 1, -1, -1):
        alts = [z3.And(ascii_allowed(bs[i]), V[i + 1])]
        for c in multibyte:
            e = c.encode()
            if i + len(e) <= n:
                alts.append(z3.And(*[bs[i + j] == e[j] for j in range(len(e))], V[i + len(e)]))
        V[i] = z3.Or(*alts)
    return V[0]
