"""Data model shared by the engine-K property generators."""
from dataclasses import dataclass, field
from typing import List, Optional


@dataclass
class Harness:
    name: str                       # fn name inside `mod proofs` of the shape module
    symbolic: str                   # human description of the symbolic inputs and their domains
    covers: int = 0                 # kani::cover! statements that must come back SATISFIED
    unreachable_covers: int = 0     # kani::cover! that must come back UNREACHABLE (must-panic obligations)
    should_panic: bool = False
    unwind: Optional[int] = None
    asserts: str = ""               # what is asserted, in words
    quick: bool = True              # part of the quick tier


@dataclass
class Shape:
    name: str                       # module / file name (src/<name>.rs)
    source: str                     # Rust source of the module
    harnesses: List[Harness]
    descr: str                      # the program (type definition + attributes), for evidence
    exercises: List[str] = field(default_factory=list)   # functions of /repo whose output is exercised
    quick: bool = True
    crate_attrs: List[str] = field(default_factory=list)  # crate-level attributes needed (features)
    tags: List[str] = field(default_factory=list)
    expect_reject: bool = False     # the program must NOT compile (decided by rustc, not by the solver); it has no harnesses


def reject_shape(prefix, name, program, why, exercises):
    """A program that must NOT compile (a 'is a compile error' / 'no such impl' clause of a property).  It has no harness: rustc decides it while
    the harness crate is built, and the evidence lists it under must_not_compile_* - it is not a solver result."""
    return Shape("%s_rej_%s" % (prefix, name), "#![allow(dead_code, unused)]\n" + program + "\n", [], "[must not compile: %s] %s" % (why, program),
                 exercises=list(exercises), expect_reject=True)
