#!/usr/bin/env python3
"""Regenerates MANIFEST.json from the table below (run from /verif)."""
import json
import os

HERE = os.path.dirname(os.path.dirname(os.path.abspath(__file__)))

K_NOTE = ("Trusted base: Kani 0.68 + CBMC 6.11 (CaDiCaL) as a model of rustc's semantics for the generated code; the "
          "harness generator in vf/props/; rustc (Kani's pinned nightly) to expand the working-tree macros. Bounds: the "
          "programs dimension is the finite grid printed in the evidence; values are symbolic over the stated domains. "
          "Counterexamples are replayed natively (dev and release-equivalent profile) before being reported; "
          "timeouts/OOM/non-reproducing counterexamples exit 2, never 0.")

CHECKS = {
    "C12": dict(
        engine="K",
        technique="bounded model checking (Kani/CBMC) of the derive expansions; n symbolic over the whole repr type; oracle = rustc's discriminants on a mirror enum",
        text="For every enum of a stated grid (16 repr spellings x up to 15 discriminant layouts x 5 generic headers) the SAT "
             "solver decides, for all 2^k integers of the repr type at once, that try_from(n) is Ok(v) exactly when n is the "
             "rustc-assigned discriminant of the field-less variant v and Err carrying n otherwise. Exhaustive in the value "
             "dimension (which tests sample), bounded in the program dimension (the grid).",
        design_ref="DESIGN.md §1, §3 C12"),
}

CHECKS["C10"] = dict(
    engine="K",
    technique="bounded model checking (Kani/CBMC) of the derive expansions; operand payloads, variants, scalar and iterator length symbolic; oracle = the operator applied to the fields directly",
    text="For each of the 24 operator derives on a grid of struct and enum shapes the solver decides, for all operand values at once "
         "(free 32-bit payloads, symbolic variants), that the result is field-wise `lhs.i op rhs.i` with operand order preserved, that "
         "`op=` equals `op`, that Sum/Product equal the fold from the field-wise empty value (0..=3 elements), and that enum mismatches / "
         "unit variants give the documented errors. Operand types implement every operator as a distinct non-commutative injective "
         "function, so any swap of operands, fields or operators has a witness the solver will find.",
    design_ref="DESIGN.md §1, §3 C10")

NOT_APPLICABLE = {
    "C01": "quantifies over programs with rustc's type checker and lint pass as the oracle; neither the expanders (syn trees, Rc/Vec heaps) nor rustc can be executed symbolically with the tools present (DESIGN.md §5)",
    "C04": "sufficiency/excess of inferred bounds is a trait-solver fact about generic impls; the code takes syn::Fields/syn::Type; no symbolic variable to quantify over (the placeholder-resolution front half is decided under C03) (DESIGN.md §5)",
    "C15": "name resolution of generated tokens inside hostile scopes is rustc's verdict; a solver has nothing to quantify (DESIGN.md §5)",
    "C17": "a relation between expansions of different attribute token streams plus must-not-compile facts, all inside syn::parse machinery that cannot be executed symbolically here (DESIGN.md §5)",
    "C19": "would need the expanders run under a symbolic hasher seed and symbolic expansion history; the seed-dependent object lives in std, not in the repository (DESIGN.md §5)",
    "C20": "a cargo feature build matrix; nothing symbolic to decide (DESIGN.md §5)",
}

PENDING = "check under construction at this commit; not claimed until it is sound end to end (see DESIGN.md §9 for the order)"
ALL = ["C%02d" % i for i in range(1, 21)]


def main():
    checks = []
    for pid in ALL:
        if pid not in CHECKS:
            continue
        c = CHECKS[pid]
        checks.append({
            "property_id": pid,
            "quick_cmd": "./check %s --tier quick" % pid,
            "thorough_cmd": "./check %s --tier thorough" % pid,
            "evidence_file": "/verif/evidence/%s.json" % pid,
            "replay_cmd_template": "./check %s --replay {path}" % pid,
            "engine": c["engine"],
            "level_claimed": {"category": "model_checking", "text": c["text"], "design_ref": c["design_ref"]},
            "level_note": c.get("note", K_NOTE),
            "technique": c["technique"],
        })
    na = []
    for pid in ALL:
        if pid in CHECKS:
            continue
        na.append({"property_id": pid, "reason": NOT_APPLICABLE.get(pid, PENDING)})
    m = {
        "version": 1,
        "setup_cmd": "./setup",
        "hooks": {
            "guard": "derive_more_verif",
            "enable": "none needed: engine K consumes /repo through its public macros (path dependency), engine L includes the two parser files by #[path]; there are no source hooks",
            "baseline_off_cmd": "cd /repo && cargo nextest run --workspace --no-fail-fast --offline --test-threads 8",
            "source_commits": [],
            "add_only": True,
        },
        "engines": [
            {"name": "K", "path": "vf/kani.py", "serves_properties": [p for p in ALL if CHECKS.get(p, {}).get("engine") == "K"],
             "kind_free_text": "Kani 0.68 / CBMC 6.11 bounded model checking of the expansions generated by the working-tree proc-macro on a stated grid of type definitions; values, variants, integers and formatter options symbolic"},
            {"name": "L", "path": "vf/llsym", "serves_properties": [p for p in ALL if CHECKS.get(p, {}).get("engine") == "L"],
             "kind_free_text": "llsym: path-forking symbolic execution of the optimised LLVM IR of impl/src/fmt/parsing.rs and impl/src/parsing.rs (included by path from the working tree), decided by z3"},
        ],
        "checks": checks,
        "notes": "Exit codes: 0 held within the stated bounds (KNOWN-FINDING lines allowed), 1 replay-confirmed violation, 2 inconclusive "
                 "(timeout, OOM, solver error, non-reproducing counterexample). fix: commits in /repo are listed in known_findings.txt.",
        "not_applicable": na,
    }
    with open(os.path.join(HERE, "MANIFEST.json"), "w") as f:
        json.dump(m, f, indent=1)
        f.write("\n")


if __name__ == "__main__":
    main()
