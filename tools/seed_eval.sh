#!/bin/bash
# tools/seed_eval.sh <PROP> <seed-name> [tier]   - confirm a sub-agent's seeded change in its scratch worktree, then run the
# check against it (applied to /repo, undone straight afterwards) and record everything under /verif/seeded/<seed-name>/.
set -u
P=$1; NAME=$2; TIER=${3:-quick}; WT=${WT:-/tmp/wt-$P}
OUT=/verif/seeded/$NAME; mkdir -p $OUT
cd $WT || exit 2
git diff -- impl src > $OUT/patch.diff
[ -s $OUT/patch.diff ] || { echo "no change in $WT"; exit 2; }
cp tests/seeded_demo.rs $OUT/seeded_demo.rs
cp SEEDED.md $OUT/agent_notes.md 2>/dev/null
mv tests/seeded_demo.rs /tmp/seeded_demo_$P.rs
SUITE=$(cargo nextest run --workspace --no-fail-fast --offline --test-threads 8 2>&1 | sed 's/\x1b\[[0-9;]*m//g' | grep -E "Summary" | tail -1)
mv /tmp/seeded_demo_$P.rs tests/seeded_demo.rs
DEMO_WITH=$(cargo test --offline --features full --test seeded_demo 2>&1 | grep -E "^test result|error: could not compile|error\[" | head -3 | tr '\n' ' ')
git stash -q
DEMO_WITHOUT=$(cargo test --offline --features full --test seeded_demo 2>&1 | grep -E "^test result|error: could not compile|error\[" | head -3 | tr '\n' ' ')
git stash pop -q
echo "suite with change: $SUITE"; echo "demo with change: $DEMO_WITH"; echo "demo without: $DEMO_WITHOUT"
# run the check against the change
cd /verif
git -C /repo status --porcelain --untracked-files=no | grep -q . && { echo "/repo is dirty, refusing"; exit 2; }
git -C /repo apply $OUT/patch.diff || { echo "patch does not apply to /repo"; exit 2; }
START=$(date +%s)
cp evidence/$P.json /tmp/evidence_$P.clean.json 2>/dev/null
./check $P --tier $TIER > $OUT/check_$TIER.log 2>&1; RC=$?
END=$(date +%s)
git -C /repo checkout -- .
# the evidence written by this run describes the seeded tree: keep it with the seed, restore the clean-tree evidence
cp evidence/$P.json $OUT/evidence_$TIER.json 2>/dev/null
[ -f /tmp/evidence_$P.clean.json ] && mv /tmp/evidence_$P.clean.json evidence/$P.json
VIOL=$(grep -c "^VIOLATION" $OUT/check_$TIER.log)
echo "check $P --tier $TIER: exit $RC, $VIOL VIOLATION line(s), $((END-START)) s"
grep "^VIOLATION" $OUT/check_$TIER.log | head -5
python3 - "$P" "$NAME" "$TIER" "$RC" "$VIOL" "$SUITE" "$DEMO_WITH" "$DEMO_WITHOUT" "$((END-START))" <<'PY'
import json,sys,os
p,name,tier,rc,viol,suite,dw,dwo,secs=sys.argv[1:]
path='/verif/seeded/%s/meta.json'%name
meta=json.load(open(path)) if os.path.exists(path) else {}
meta.update({"property":p,"seed":name,"suite_with_change":suite,"demo_with_change":dw,"demo_without_change":dwo})
meta.setdefault("runs",{})[tier]={"cmd":"./check %s --tier %s"%(p,tier),"exit":int(rc),"violation_lines":int(viol),"wall_s":int(secs),
   "detected": int(rc)==1 and int(viol)>0}
json.dump(meta,open(path,'w'),indent=1)
PY
