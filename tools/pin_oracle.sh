#!/bin/bash
# Pins vf/llsym/rust/oracle.rs against the nightly's real rustc_parse_format: tools/pin_oracle.sh <max chars> [max length of the structured language]
# (all short strings, plus every literal of the constrained passes of the C03 exploration - tools/gen_oracle_extra.py)
# Writes .state/oracle_pin.json.  Exit 0 = agree, 1 = disagreement, 3 = validator could not be built (no verdict).
cd "$(dirname "$0")/.."
N=${1:-5}
mkdir -p .state
V=vf/llsym/rust/validator
S=$(rustc +nightly --print sysroot 2>/dev/null)
if [ -z "$S" ] || ! (cd $V && CARGO_NET_OFFLINE=true cargo +nightly build --release --offline >/tmp/pin_oracle_build.log 2>&1); then
  echo '{"status": "not-built", "note": "nightly rustc-dev not usable; the oracle restatement is unpinned in this environment"}' > .state/oracle_pin.json
  echo "pin_oracle: validator could not be built (see /tmp/pin_oracle_build.log)"; exit 3
fi
EXTRA=.state/oracle_extra.txt
python3-vt tools/gen_oracle_extra.py $EXTRA ${2:-9} >/dev/null 2>&1 || EXTRA=
OUT=$(LD_LIBRARY_PATH=$S/lib $V/target/release/oracle-validator $N $EXTRA 2>&1); RC=$?
echo "$OUT" | tail -3
python3 - "$RC" "$N" "$OUT" <<'PY'
import json,sys,time
rc,n,out=sys.argv[1:]
json.dump({"status":"agree" if rc=="0" else "DISAGREE","max_chars":int(n),"summary":out.strip().split("\n")[-1],
           "rustc":"nightly rustc_parse_format via rustc-dev","at":time.strftime("%Y-%m-%dT%H:%M:%SZ",time.gmtime())},open(".state/oracle_pin.json","w"),indent=1)
PY
exit $RC
