#!/bin/bash
# tools/seed_round.sh <worktree-key>:<PROP>:<seed-name> ...  - confirm each sub-agent change in /tmp/wt-<key>, record it under seeded/<seed-name>,
# remove the worktree, then run the property's quick check against it (tools/seed_check.sh).  Sequential; log to /var/tmp/seed-round.log
cd "$(dirname "$0")/.."
for spec in "$@"; do
  IFS=: read KEY P NAME <<< "$spec"
  WT=/tmp/wt-$KEY tools/seed_confirm.sh $P $NAME > /var/tmp/confirm-$NAME.log 2>&1
  python3 - "$NAME" "$P" <<'PY'
import json,sys
p='/verif/seeded/%s/meta.json'%sys.argv[1]; m=json.load(open(p)); m['property']=sys.argv[2]; json.dump(m,open(p,'w'),indent=1)
PY
  echo "$NAME confirm: $(grep -E '^(suite|demo)' /var/tmp/confirm-$NAME.log | tr '\n' ' ' | cut -c1-400)"
  git -C /repo worktree remove --force /tmp/wt-$KEY
  tools/seed_check.sh $NAME quick
done
echo finished
