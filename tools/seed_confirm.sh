#!/bin/bash
# tools/seed_confirm.sh <PROP> <seed-name> [seed-only patch file]  - confirm a sub-agent's seeded change in its scratch worktree
# /tmp/wt-<PROP> (suite with the change, demonstration with / without) and record it under /verif/seeded/<seed-name>/.
# Integration-test demos live in tests/seeded_demo.rs; in-crate demos in impl/src/seeded_demo.rs plus a `mod` declaration that is
# NOT part of the change (then the seed-only patch file must be given).
set -u
P=$1; NAME=$2; PATCH=${3:-}; WT=${WT:-/tmp/wt-$P}
OUT=/verif/seeded/$NAME; mkdir -p $OUT
cd $WT || exit 2
if [ -n "$PATCH" ]; then cp $PATCH $OUT/patch.diff; else git diff -- impl src > $OUT/patch.diff; fi
[ -s $OUT/patch.diff ] || { echo "no change in $WT"; exit 2; }
cp SEEDED.md $OUT/agent_notes.md 2>/dev/null
if [ -f tests/seeded_demo.rs ]; then
  cp tests/seeded_demo.rs $OUT/seeded_demo.rs
  DEMO="cargo test --offline --features full --test seeded_demo"
  mv tests/seeded_demo.rs /tmp/seeded_demo_$P.rs
  SUITE=$(cargo nextest run --workspace --no-fail-fast --offline --test-threads 8 2>&1 | sed 's/\x1b\[[0-9;]*m//g' | grep -E "Summary" | tail -1)
  mv /tmp/seeded_demo_$P.rs tests/seeded_demo.rs
  DEMO_WITH=$($DEMO 2>&1 | grep -E "^test result|error: could not compile|error\[" | head -3 | tr '\n' ' ')
  git stash -q
  DEMO_WITHOUT=$($DEMO 2>&1 | grep -E "^test result|error: could not compile|error\[" | head -3 | tr '\n' ' ')
  git stash pop -q
else
  cp impl/src/seeded_demo.rs $OUT/seeded_demo.rs
  git diff -- impl src > $OUT/worktree_full.diff      # change + demo declaration
  DEMO="cargo test -p derive_more-impl --offline --features full seeded_demo"
  # suite with the change only (demo declaration reverted)
  git stash -q; git apply $OUT/patch.diff
  SUITE=$(cargo nextest run --workspace --no-fail-fast --offline --test-threads 8 2>&1 | sed 's/\x1b\[[0-9;]*m//g' | grep -E "Summary" | tail -1)
  git checkout -q -- impl src; git stash pop -q
  DEMO_WITH=$($DEMO 2>&1 | grep -E "^test result: (FAILED|ok). [1-9]|^test result: FAILED|error: could not compile|error\[" | head -3 | tr '\n' ' ')
  # demo without the change: full diff minus the seed patch
  git stash -q; git stash show -p stash@{0} > /tmp/full_$P.diff; git apply /tmp/full_$P.diff; git apply -R $OUT/patch.diff
  DEMO_WITHOUT=$($DEMO 2>&1 | grep -E "^test result: (FAILED|ok). [1-9]|^test result: FAILED|error: could not compile|error\[" | head -3 | tr '\n' ' ')
  git checkout -q -- impl src; git stash pop -q
fi
echo "suite with change: $SUITE"; echo "demo with change: $DEMO_WITH"; echo "demo without: $DEMO_WITHOUT"
python3 - "$P" "$NAME" "$SUITE" "$DEMO_WITH" "$DEMO_WITHOUT" "$DEMO" <<'PY'
import json,sys,os
p,name,suite,dw,dwo,demo=sys.argv[1:]
path='/verif/seeded/%s/meta.json'%name
meta=json.load(open(path)) if os.path.exists(path) else {}
meta.update({"property":p,"seed":name,"suite_with_change":suite.strip(),"demo_cmd":demo,"demo_with_change":dw,"demo_without_change":dwo,
  "confirmed_by":"tools/seed_confirm.sh in the sub-agent's scratch worktree (suite: cargo nextest run --workspace --no-fail-fast --offline)"})
json.dump(meta,open(path,'w'),indent=1)
PY
