#!/bin/bash
# tools/seed_check.sh <seed-name> [tier] [prop]  - run a check against a seeded change WITHOUT touching /repo: the change is applied
# in a throw-away git worktree of /repo's HEAD (under /var/tmp), the check runs with VERIF_REPO pointing at it and writes its evidence
# and replay files under seeded/<seed-name>/, and the worktree is removed.  meta.json gets the outcome under runs.<tier>.
set -u
NAME=$1; TIER=${2:-quick}
cd "$(dirname "$0")/.."
S=$PWD/seeded/$NAME
P=${3:-$(python3 -c "import json;print(json.load(open('$S/meta.json'))['property'])")}
WT=/var/tmp/dm-seed/$NAME-$$
mkdir -p /var/tmp/dm-seed
git -C /repo worktree add --detach -q $WT HEAD || exit 2
trap 'git -C /repo worktree remove --force $WT 2>/dev/null; rm -rf $WT' EXIT
cp /repo/Cargo.lock $WT/Cargo.lock 2>/dev/null
git -C $WT apply $S/patch.diff || { echo "$NAME: patch does not apply to /repo HEAD"; exit 2; }
OWN=$(python3 -c "import json;print(json.load(open('$S/meta.json'))['property'])")
SUF=""; [ "$P" != "$OWN" ] && SUF="_$P"
mkdir -p $S/evidence_$TIER$SUF $S/replay
START=$(date +%s)
VERIF_REPO=$WT VERIF_EVIDENCE_DIR=$S/evidence_$TIER$SUF VERIF_REPLAY_DIR=$S/replay ./check $P --tier $TIER > $S/check_$TIER$SUF.log 2>&1; RC=$?
END=$(date +%s)
VIOL=$(grep -c "^VIOLATION" $S/check_$TIER$SUF.log)
python3 - "$S/meta.json" "$P" "$TIER" "$RC" "$VIOL" "$((END-START))" "$(git rev-parse --short HEAD)" <<'PY'
import json,sys
path,p,tier,rc,viol,secs,vh=sys.argv[1:]
m=json.load(open(path))
key=tier if p==m.get("property") else "%s_%s"%(tier,p)   # a cross-check under another property's check does not overwrite the seed's own result
m.setdefault("runs",{})[key]={"cmd":"VERIF_REPO=<worktree with patch.diff applied> ./check %s --tier %s"%(p,tier),"exit":int(rc),"violation_lines":int(viol),
  "wall_s":int(secs),"detected":int(rc)==1 and int(viol)>0,"verif_commit":vh}
json.dump(m,open(path,'w'),indent=1)
PY
echo "$NAME $P $TIER exit=$RC violations=$VIOL $((END-START))s"
