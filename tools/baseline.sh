#!/bin/bash
# Runs the repository's pinned suite (there are no hooks, so "guard off" is the plain build) and prints the summary.
# Expected (BASELINE.json): 562 stable passes; derive_more::compile_fail::compile_fail is an always-fail of the baseline.
cd /repo && cargo nextest run --workspace --no-fail-fast --offline --test-threads 8 2>&1 | sed 's/\x1b\[[0-9;]*m//g' | grep -E "Summary|FAIL " | sort -u
