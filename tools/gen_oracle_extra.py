#!/usr/bin/env python3
"""Writes every literal of the constrained passes of the C03 exploration (the structured DFA language up to a length, the single-placeholder DFA
language, the digit-run templates with boundary values) to a file, one per line, so that tools/pin_oracle.sh can pin the oracle restatement
against rustc_parse_format on exactly the longer literals those passes explore."""
import os
import sys
sys.path.insert(0, os.path.join(os.path.dirname(os.path.abspath(__file__)), ".."))
from vf.props import fmtparser  # noqa: E402


def words(T, q0, qf, maxlen):
    by = {}
    for (q, c), r in T.items():
        by.setdefault(q, []).append((c, r))
    out, cur = [], [("", q0)]
    for _ in range(maxlen):
        nxt = []
        for w, q in cur:
            for c, r in by.get(q, []):
                nxt.append((w + c, r))
        cur = nxt
        out += [w for w, q in cur if q == qf]
    return out


def main():
    path, struct_len = sys.argv[1], int(sys.argv[2]) if len(sys.argv) > 2 else 9
    lines = [w for w in words(fmtparser.struct_dfa(), 0, 0, struct_len)]
    T, q0, qf = fmtparser.placeholder_dfa()
    lines += words(T, q0, qf, 18)
    vals = [0, 1, 9, 10, 255, 256, 65534, 65535, 65536, 65537, 99999, 100000, 4294967295, 4294967296, 18446744073709551615, 18446744073709551616,
            99999999999999999999, 100000000000000000000, 999999999999999999999]
    for t in fmtparser.digit_templates("thorough", "C03"):
        runs = [len(r) for r in __import__("re").findall(r"D+", t)]
        for v in vals:
            s, ok = t, True
            for k in runs:
                d = str(v).zfill(k)
                if len(d) != k:
                    ok = False
                    break
                s = s.replace("D" * k, d, 1)
            if ok:
                lines.append(s)
    lines += fmtparser.STRESS_LITERALS
    with open(path, "w") as f:
        for l in lines:
            f.write(l + "\n")
    print("%d literals -> %s" % (len(lines), path))


if __name__ == "__main__":
    main()
