#!/bin/bash
# tools/run_all.sh [quick|thorough] [ids...] - run the registered checks one after the other on the current tree
cd "$(dirname "$0")/.."
TIER=${1:-quick}; shift
IDS=${@:-$(python3 -c "import json; print(' '.join(c['property_id'] for c in json.load(open('MANIFEST.json'))['checks']))")}
for p in $IDS; do
  s=$(date +%s); ./check $p --tier $TIER > /var/tmp/runall-$p.log 2>&1; rc=$?; e=$(date +%s)
  echo "$p $TIER exit=$rc $((e-s))s $(grep -c '^VIOLATION' /var/tmp/runall-$p.log) violations $(grep -c '^KNOWN-FINDING' /var/tmp/runall-$p.log) known"
done
