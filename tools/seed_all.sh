#!/bin/bash
# tools/seed_all.sh [tier] [i/n]  - run every seeded change under seeded/ against the current checks (each in its own throw-away worktree, /repo is
# not touched) and print one line per seed; the per-seed outcome goes to seeded/<name>/meta.json (runs.<tier>).  Sequential: the checks use
# all cores.  Exit 0 when every seed was detected.
cd "$(dirname "$0")/.."
TIER=${1:-quick}
SHARD=${2:-0/1}   # i/n: only every n-th seed starting at i (to run n sweeps side by side)
miss=0; k=0
for d in seeded/*/; do
  k=$((k+1)); [ $(( (k-1) % ${SHARD#*/} )) -eq ${SHARD%/*} ] || continue
  s=$(basename $d)
  out=$(tools/seed_check.sh $s $TIER | tail -1)
  echo "$out"
  case "$out" in *"exit=1 violations=0"*|*"exit=0"*|*"exit=2"*) miss=$((miss+1));; esac
done
echo "seeds not detected: $miss"
[ $miss -eq 0 ]
